"""Model-checking machinery for chrisguidry/measured (see /verif/DESIGN.md).

Bootstrap: make sure `import measured` resolves to the tree under test.  By default that
is /repo/src (the editable install of /venv already points there); VERIF_SRC overrides it
for the mutation driver, which runs the same checks against scratch copies.
"""
import os
import sys

SRC = os.environ.get("VERIF_SRC", "/repo/src")
if SRC not in sys.path:
    sys.path.insert(0, SRC)
sys.dont_write_bytecode = True

"""C01 — a unit's dimension equals the product of its factors' dimensions, in every history.

Part A: HistoryExplorer BFS over constructor / observer events (the real public API),
        whole-intern-table invariant after every transition.
Part B: one-step sweep over a unit box x construction orders x observers.
Part C: cross-process (JSON / pickle dumped in process 1, loaded in a fresh process 2).
"""
import contextlib
import io
import itertools
import json
import pickle

from ..common import HarnessError, chunked, pmap, rotate, run_py
from ..explore import HistoryExplorer, Model
from ..world import get_world

SEEDS = [
    ("measured.si", "Meter"),
    ("measured.us", "Foot"),
    ("measured.us", "Yard"),
    ("measured.si", "Second"),
    ("measured.us", "PoundForce"),
    ("measured.metric", "Fresnel"),
]
SMALL_SEEDS = [
    ("measured.us", "Foot"),
    ("measured.us", "Yard"),
    ("measured.si", "Second"),
    ("measured.us", "PoundForce"),
]
EXTRA_POOL = [("measured.si", "Liter"), ("measured.si", "Gram")]

POWS = [2, -1, 3, -2]
ROOTS = [2, 3, -1, -2]
MAX_EXP = 4
MAX_FACTORS = 4

TOLERATED = (
    "FractionalDimensionError",
    "ConversionNotFound",
    "AssertionError",  # C07's business
    "ParseError",  # C13's business
    "KeyError",
    "SystemExit",
    "ZeroDivisionError",
)


def _imp(mod, name):
    import importlib

    return getattr(importlib.import_module(mod), name)


def expected_dim(w, u, _depth=0):
    """Group model: dimension exponent vector = sum e * dim(base unit)."""
    if w.is_base(u) or _depth > 4:
        return tuple(u.dimension.exponents)
    n = len(u.dimension.exponents)
    acc = [0] * n
    for f, e in u.factors.items():
        fd = expected_dim(w, f, _depth + 1)
        for i in range(min(n, len(fd))):
            acc[i] += e * fd[i]
    return tuple(acc)


from ..world import flat as _flat  # noqa: E402


def safe_ustr(w, u):
    try:
        return w.ustr(u)
    except Exception as e:  # noqa
        return f"<unit without usable state: {type(e).__name__}: {e}>"


def table_violations(w, extra=()):
    """The invariant I(world): every interned unit (and every unit in `extra`)."""
    bad = []
    seen = set()
    nf = len(w.m.Number.exponents)
    known_dims = {id(d) for d in _flat(w.m.Dimension._known)}
    for u in itertools.chain(list(w.m.Unit._known.values()), extra):
        if id(u) in seen:
            continue
        seen.add(id(u))
        try:
            exp = expected_dim(w, u)
            got = tuple(u.dimension.exponents)
            name = w.ustr(u)
        except Exception as e:  # noqa
            # an interned unit that cannot even report its factors or dimension (half-built)
            bad.append((f"<interned unit without usable state: {type(e).__name__}: {e}>", (), ()))
            continue
        if exp != got:
            bad.append((name, got, exp))
            continue
        # ... and that dimension is THE interned object for those exponents, as wide as the
        # current set of fundamental dimensions (a phantom twin compares equal tuple-wise)
        if len(got) != nf or id(u.dimension) not in known_dims:
            bad.append((name, got, tuple(list(exp) + [0] * (nf - len(exp)))))
    return bad


# ----------------------------------------------------------------- observers (unary)


def _obs_as_ratio(w, u):
    return list(u.as_ratio())


def _obs_fmt_ratio(w, u):
    format(u, "/")
    return []


def _obs_str(w, u):
    str(u)
    repr(u)
    return []


def _obs_pretty(w, u):
    from IPython.lib.pretty import pretty

    pretty(u)
    return []


def _obs_html(w, u):
    u._repr_html_()
    return []


def _obs_parse(w, u):
    return [w.m.Unit.parse(str(u))]


def _obs_quantify(w, u):
    return [u.quantify().unit]


def _obs_json(w, u):
    from measured.json import MeasuredJSONDecoder, MeasuredJSONEncoder

    v = json.loads(json.dumps(u, cls=MeasuredJSONEncoder), cls=MeasuredJSONDecoder)
    return [v]


def _obs_pickle(w, u):
    return [pickle.loads(pickle.dumps(u))]


def _obs_cli(w, u):
    from measured import cli

    with contextlib.redirect_stdout(io.StringIO()):
        cli.print_quantity("1 " + str(u))
    return []


def _obs_q_pow(w, u):
    return [((2 * u) ** 2).unit, ((2 * u) ** -1).unit]


def _obs_q_root(w, u):
    return [(4 * u).root(2).unit]


def _obs_q_unprefixed(w, u):
    return [(2 * u).unprefixed().unit]


def _obs_q_render(w, u):
    q = 2.5 * u
    str(q)
    format(q, ":/")
    q._repr_html_()
    from IPython.lib.pretty import pretty

    pretty(q)
    return []


def _obs_m_render(w, u):
    mm = w.m.Measurement(2.5 * u, 0.5)
    str(mm)
    format(mm, "::/")
    mm._repr_html_()
    from IPython.lib.pretty import pretty

    pretty(mm)
    return []


def _obs_q_json(w, u):
    from measured.json import MeasuredJSONDecoder, MeasuredJSONEncoder

    q = 3 * u
    v = json.loads(json.dumps(q, cls=MeasuredJSONEncoder), cls=MeasuredJSONDecoder)
    return [v.unit]


OBSERVERS = {
    "as_ratio": _obs_as_ratio,
    "fmt_ratio": _obs_fmt_ratio,
    "str": _obs_str,
    "parse": _obs_parse,
    "quantify": _obs_quantify,
    "pretty": _obs_pretty,
    "html": _obs_html,
    "json": _obs_json,
    "pickle": _obs_pickle,
    "cli": _obs_cli,
    "q_pow": _obs_q_pow,
    "q_root": _obs_q_root,
    "q_unprefixed": _obs_q_unprefixed,
    "q_render": _obs_q_render,
    "m_render": _obs_m_render,
    "q_json": _obs_q_json,
}
CORE_OBSERVERS = ["as_ratio", "fmt_ratio", "parse", "quantify", "pretty", "q_root", "q_render"]


class Ctx:
    def __init__(self, w, nseeds=None):
        self.w = w
        self.ws = [_imp(*s) for s in (SEEDS if nseeds is None else SMALL_SEEDS)]
        self.kilo = _imp("measured.si", "Kilo")


class C01Model(Model):
    def __init__(self, observers, twins=True, small=False):
        self.observers = observers
        self.twins = twins
        self.small = small
        self.tag = {"small": small}

    def init(self, world):
        return Ctx(world, 4 if self.small else None)

    def events(self, ctx):
        n = len(ctx.ws)
        evs = []
        for i in range(n):
            for p in POWS:
                evs.append(["pow", i, p])
            for r in ROOTS:
                evs.append(["root", i, r])
            evs.append(["prefix", i])
        for i in range(n):
            for j in range(n):
                evs.append(["mul", i, j])
                evs.append(["div", i, j])
        for name in self.observers:
            for i in range(n):
                evs.append(["obs", name, i])
        for i in range(n):
            for j in range(n):
                if i != j and ctx.ws[i].dimension is ctx.ws[j].dimension:
                    evs.append(["conv", i, j])
        if self.twins:
            for i in range(n):
                for j in range(n):
                    evs.append(["q_mul", i, j])
                    evs.append(["q_div", i, j])
        if not getattr(ctx, "defined", False):
            # a user-defined fundamental dimension widens every exponent tuple in place: whatever
            # was memoised before must not come back one slot short
            evs.append(["define_dim"])
        return evs

    def apply(self, ctx, ev):
        ws = ctx.ws
        op = ev[0]
        res = []
        try:
            if op == "mul":
                res = [ws[ev[1]] * ws[ev[2]]]
            elif op == "div":
                res = [ws[ev[1]] / ws[ev[2]]]
            elif op == "pow":
                res = [ws[ev[1]] ** ev[2]]
            elif op == "root":
                res = [ws[ev[1]].root(ev[2])]
            elif op == "prefix":
                res = [ctx.kilo * ws[ev[1]]]
            elif op == "define_dim":
                ctx.defined = True
                ctx.w.m.Dimension.define("verif c01 dimension", "Vc1")
                res = []
            elif op == "obs":
                res = OBSERVERS[ev[1]](ctx.w, ws[ev[2]])
            elif op == "conv":
                res = [(1 * ws[ev[1]]).in_unit(ws[ev[2]]).unit]
            elif op == "q_mul":
                res = [((2 * ws[ev[1]]) * (3 * ws[ev[2]])).unit]
            elif op == "q_div":
                res = [((2 * ws[ev[1]]) / (3 * ws[ev[2]])).unit]
            else:
                raise HarnessError(f"unknown event {ev}")
            outcome = "ok"
        except HarnessError:
            raise
        except BaseException as e:  # noqa: library exceptions are observations
            outcome = type(e).__name__
            if outcome not in TOLERATED and not isinstance(e, ValueError):
                outcome = "unexpected:" + outcome
        ctx.last = res
        for u in res:
            if not isinstance(u, ctx.w.m.Unit):
                continue
            if any(u is x for x in ws):
                continue
            if len(u.factors) > MAX_FACTORS or any(abs(e) > MAX_EXP for e in u.factors.values()):
                continue
            ws.append(u)
        return (outcome,)

    def invariant(self, ctx, hist, ev, obs):
        w = ctx.w
        extra = [u for u in getattr(ctx, "last", []) if isinstance(u, w.m.Unit)]
        bad = table_violations(w, extra)
        out = []
        for name, got, exp in bad[:3]:
            out.append(
                (
                    "wrong_dimension",
                    f"{ev[0]}{':' + ev[1] if ev[0] == 'obs' else ''} -> {name}",
                    f"after history {describe(hist + [ev])}: unit {name} reports dimension "
                    f"exponents {got}, product of its factors' dimensions is {exp}",
                )
            )
        return out

    def canon(self, ctx):
        w = ctx.w
        base_ids = _base_ids(w)
        new = sorted(
            (repr(w.ukey(u)), w.dimkey(u.dimension))
            for u in w.m.Unit._known.values()
            if id(u) not in base_ids
        )
        ws = sorted(repr(w.ukey(u)) for u in ctx.ws)
        return [new, ws]


_BASE_IDS = None


def _base_ids(w):
    global _BASE_IDS
    if _BASE_IDS is None:
        _BASE_IDS = {id(obj) for obj, _, _ in w.base.instances}
    return _BASE_IDS


def describe(hist):
    """Render a history with operand names, by executing it symbolically on names."""
    return " ; ".join(json.dumps(e) for e in hist)


# ----------------------------------------------------------------- Part B: sweep


def box_units(pool_n, nfactors, exps):
    """Specs of units: tuple of (pool index, exponent) with distinct increasing indices,
    plus prefix flag."""
    specs = []
    for k in range(1, nfactors + 1):
        for idxs in itertools.combinations(range(pool_n), k):
            for es in itertools.product(exps, repeat=k):
                for pre in (0, 1):
                    specs.append((tuple(zip(idxs, es)), pre))
    return specs


def build_spec(w, pool, spec, order, kilo):
    terms, pre = spec
    u = None
    for idx in order:
        pi, e = terms[idx]
        t = pool[pi]
        if u is None:
            u = t**e if e != 1 else t
        elif e > 0:
            u = u * (t**e if e != 1 else t)
        else:
            u = u / (t ** (-e) if e != -1 else t)
    if pre:
        u = kilo * u
    return u


SWEEP_OPS = (
    [("obs", n) for n in OBSERVERS]
    + [("pow", p) for p in (-1, 2)]
    + [("root", r) for r in (2, 3, -1, -2)]
)


def _sweep_chunk(specs):
    w = get_world()
    pool = [_imp(*s) for s in SEEDS + EXTRA_POOL]
    kilo = _imp("measured.si", "Kilo")
    viols = []
    n_eval = 0
    nontrivial = set()
    outcomes = {}
    for spec in specs:
        terms, pre = spec
        orders = list(itertools.permutations(range(len(terms))))
        for order in orders:
            for op in SWEEP_OPS:
                w.restore()
                try:
                    u = build_spec(w, pool, spec, order, kilo)
                except Exception as e:  # noqa
                    outcomes["build:" + type(e).__name__] = outcomes.get("build:" + type(e).__name__, 0) + 1
                    continue
                res = []
                try:
                    if op[0] == "obs":
                        res = OBSERVERS[op[1]](w, u)
                    elif op[0] == "pow":
                        res = [u ** op[1]]
                    else:
                        res = [u.root(op[1])]
                    oc = "ok"
                except BaseException as e:  # noqa
                    oc = type(e).__name__
                    if oc not in TOLERATED and not isinstance(e, ValueError):
                        oc = "unexpected:" + oc
                outcomes[oc] = outcomes.get(oc, 0) + 1
                n_eval += 1
                if len(terms) > 1 or abs(terms[0][1]) > 1 or pre:
                    nontrivial.add((spec, op))
                extra = [x for x in res if isinstance(x, w.m.Unit)] + [u]
                bad = table_violations(w, extra)
                for name, got, exp in bad[:2]:
                    names = [SEEDS_AND_EXTRA[pi][1] for pi, _ in terms]
                    viols.append(
                        (
                            "wrong_dimension",
                            f"{op[0]}:{op[1]} -> {name}",
                            f"build {list(zip(names, [e for _, e in terms]))} order={order} "
                            f"kilo={pre}, then {op}: unit {name} reports {got}, factors give {exp}",
                            {"sweep": {"spec": [list(map(list, terms)), pre], "order": list(order), "op": list(op)}},
                        )
                    )
    w.restore()
    return n_eval, len(nontrivial), viols, outcomes


SEEDS_AND_EXTRA = SEEDS + EXTRA_POOL


# ----------------------------------------------------------------- Part C: cross-process

_XP_CODE = r"""
import sys, json, pickle, base64
import mc
from mc.world import get_world
from mc.checks import c01
w = get_world()
data = json.load(sys.stdin)
from measured.json import MeasuredJSONDecoder
out = []
for item in data:
    w.restore()
    try:
        if item['codec'] == 'json':
            u = json.loads(item['payload'], cls=MeasuredJSONDecoder)
        else:
            u = pickle.loads(base64.b64decode(item['payload']))
        oc = 'ok'
        extra = [u]
    except BaseException as e:
        oc = type(e).__name__; extra = []
    bad = c01.table_violations(w, extra)
    out.append({'oc': oc, 'bad': [[n, list(g), list(x)] for n, g, x in bad[:2]],
                'got': c01.safe_ustr(w, extra[0]) if extra else None})
print(json.dumps(out))
"""


def _xp_dump_chunk(specs):
    import base64

    from measured.json import MeasuredJSONEncoder

    w = get_world()
    pool = [_imp(*s) for s in SEEDS_AND_EXTRA]
    kilo = _imp("measured.si", "Kilo")
    items = []
    for spec in specs:
        w.restore()
        u = build_spec(w, pool, spec, range(len(spec[0])), kilo)
        name = w.ustr(u)
        items.append({"codec": "json", "name": name, "spec": [list(map(list, spec[0])), spec[1]],
                      "payload": json.dumps(u, cls=MeasuredJSONEncoder)})
        items.append({"codec": "pickle", "name": name, "spec": [list(map(list, spec[0])), spec[1]],
                      "payload": base64.b64encode(pickle.dumps(u)).decode()})
    w.restore()
    return items


def _xp_load_chunk(items):
    return run_py(_XP_CODE, items)


# ----------------------------------------------------------------- fresh-process validation

_FRESH_CODE = r"""
import sys, json
import mc
from mc.world import get_world
from mc.checks import c01
w = get_world()
hists = json.load(sys.stdin)
out = []
for h in hists:
    model = c01.C01Model(list(c01.OBSERVERS))
    ctx = model.init(w)   # NO restore: each history runs in its own interpreter
    obs = [list(model.apply(ctx, ev)) for ev in h]
    from mc.common import digest
    out.append({'obs': obs, 'canon': digest(model.canon(ctx)), 'bad': len(c01.table_violations(w))})
print(json.dumps(out))
"""


def _fresh_one(hist):
    return run_py(_FRESH_CODE, [hist])[0]


def validate_fresh(w, model, hists):
    """Self-validation of snapshot/restore: each history in its own brand-new interpreter
    must give the same observations and the same canonical state as in-process."""
    from ..common import digest

    fresh = pmap(_fresh_one, hists)
    for h, f in zip(hists, fresh):
        w.restore()
        ctx = model.init(w)
        obs = [list(model.apply(ctx, ev)) for ev in h]
        c = digest(model.canon(ctx))
        if obs != f["obs"] or c != f["canon"]:
            raise HarnessError(
                f"history {h} differs between in-process (restore) and a fresh "
                f"interpreter: {obs}/{c} vs {f['obs']}/{f['canon']}"
            )
    w.restore()
    return len(hists)


# ----------------------------------------------------------------- run / replay


def run(rep, tier):
    w = get_world()
    thorough = tier == "thorough"
    # ---- Part A
    full = C01Model(list(OBSERVERS), twins=True)
    exA = HistoryExplorer(w, full, max_depth=2).run()
    rep.extend(exA.violations)
    covA = exA.coverage()
    rep.note(f"A(full menu) depth {exA.completed_depth}: states={exA.states} transitions={exA.transitions}")
    core = C01Model(CORE_OBSERVERS, twins=False, small=not thorough)
    depth = 3
    exA2 = HistoryExplorer(
        w, core, max_depth=depth, state_cap=(400000 if thorough else 60000),
        time_cap=(1500 if thorough else 100),
    ).run()
    rep.extend(exA2.violations)
    covA2 = exA2.coverage()
    rep.note(
        f"A(core menu) depth {exA2.completed_depth}/{depth}: states={exA2.states} "
        f"transitions={exA2.transitions} capped={exA2.capped}"
    )
    # ---- fresh-interpreter validation of histories
    hists = [[]] + [[ev] for ev in full.events(full.init(w))]
    last = exA.last_level
    if last:
        stride = max(1, len(last) // (200 if thorough else 40))
        hists += last[::stride][: (200 if thorough else 40)]
    nvalid = validate_fresh(w, full, hists)
    # ---- Part B
    exps = [-3, -2, -1, 1, 2, 3]
    specs = box_units(len(SEEDS_AND_EXTRA), 3 if thorough else 2, exps if thorough else [-2, -1, 1, 2, 3])
    specs = rotate(specs)
    resB = pmap(_sweep_chunk, chunked(specs, 64))
    nB = sum(r[0] for r in resB)
    ntB = sum(r[1] for r in resB)
    outB = {}
    for r in resB:
        rep.extend(r[2])
        for k, v in r[3].items():
            outB[k] = outB.get(k, 0) + v
    rep.note(f"B sweep: {len(specs)} unit specs, {nB} (unit, order, op) evaluations")
    # ---- Part C
    xspecs = specs if thorough else specs[:: max(1, len(specs) // 400)]
    items = [x for r in pmap(_xp_dump_chunk, chunked(xspecs, 16)) for x in r]
    loaded = pmap(_xp_load_chunk, chunked(items, 16))
    nC = 0
    for chunk_items, outs in zip(chunked(items, 16), loaded):
        for it, o in zip(chunk_items, outs):
            nC += 1
            if o["bad"]:
                rep.violation(
                    "wrong_dimension_after_load",
                    f"{it['codec']} -> {o['bad'][0][0]}",
                    f"{it['codec']} dump of {it['name']} loaded in a fresh process: {o['bad']}",
                    {"xp": it},
                )
            elif o["oc"] == "ok" and o["got"] != it["name"]:
                rep.violation(
                    "different_unit_after_load",
                    f"{it['codec']} {it['name']}",
                    f"loaded {o['got']} instead of {it['name']}",
                    {"xp": it},
                )
    rep.note(f"C cross-process: {nC} payloads loaded in fresh interpreters")
    rep.cov.update(
        {
            "states": exA.states + exA2.states,
            "transitions": exA.transitions + exA2.transitions + nB,
            "traces_validated_against_impl": nvalid + nC,
            "exhaustive": exA2.capped is None,
            "part_A_full_menu": covA,
            "part_A_core_menu": covA2,
            "part_B": {"unit_specs": len(specs), "evaluations": nB, "distinct_nontrivial": ntB, "outcomes": outB},
            "part_C": {"payloads": nC},
            "samples": [
                {"history": h} for h in (exA.last_level[:3] + exA2.last_level[:3])
            ]
            + [{"sweep_spec": specs[0]}],
            "canon": "set of (name-keyed unit, dimension) interned since baseline + working set; "
            "factor order dropped (cannot influence a dimension); caches not in canon: "
            "intern tables are monotone so a cache hit equals re-execution",
        }
    )
    rep.assumptions += [
        "base units' own dimensions (given at definition) are trusted",
        "bounds: |exponent|<=4, <=4 factors in the working set; events as listed in DESIGN C01",
        "line-level: CPython 3.12, single thread",
    ]


def replay(obj, kind=None):
    w = get_world()
    if "history" in obj:
        model = C01Model(list(OBSERVERS), small=bool((obj.get("model") or {}).get("small")))
        ctx = model.init(w)
        for ev in obj["history"]:
            model.apply(ctx, ev)
        extra = [u for u in getattr(ctx, "last", []) if isinstance(u, w.m.Unit)]
        bad = table_violations(w, extra)
        return bool(bad), f"units with wrong dimension: {bad[:3]}"
    if "sweep" in obj:
        s = obj["sweep"]
        pool = [_imp(*x) for x in SEEDS_AND_EXTRA]
        kilo = _imp("measured.si", "Kilo")
        spec = (tuple(tuple(t) for t in s["spec"][0]), s["spec"][1])
        u = build_spec(w, pool, spec, s["order"], kilo)
        op = s["op"]
        res = []
        try:
            if op[0] == "obs":
                res = OBSERVERS[op[1]](w, u)
            elif op[0] == "pow":
                res = [u ** op[1]]
            else:
                res = [u.root(op[1])]
        except BaseException as e:  # noqa
            pass
        bad = table_violations(w, [x for x in res if isinstance(x, w.m.Unit)] + [u])
        return bool(bad), f"units with wrong dimension: {bad[:3]}"
    if "xp" in obj:
        o = run_py(_XP_CODE, [obj["xp"]])[0]
        v = bool(o["bad"]) or (o["oc"] == "ok" and o["got"] != obj["xp"]["name"])
        return v, json.dumps(o)
    raise HarnessError("unknown replay object")

"""C02 — dimensions, prefixes and units are canonical objects forming abelian groups.

Explicit-state exploration of the *group elements reachable by the real operators*: a state
is an interned object, a transition is one real operator application (x*y, x/y, x**n,
x.root(n), prefix*x).  Every transition is compared with an independent free-abelian-group
normal form (exponent vector over base units + prefix exponent per base): equal normal form
<=> the very same object.  Three sorts (dimensions, prefixes, units); for each

  * closure by height: L0 = generators, L(k+1) = all binary operator applications over
    everything reached so far, all unary ones; height 2 complete (quick) and height 3 with
    one operand of height <= 1 (thorough) -> every expression tree with <= 4 leaves, any
    association, powers / roots / prefixes anywhere;
  * closure in a box (dimensions, prefixes): all ordered pairs of box elements x {*, /};
  * the named laws, instantiated over everything reached (counted per law).

Expressions whose leaves carry prefixes of different bases are compared numerically (1e-9),
as the property states; their unit factors must still be identical.
"""
import itertools
from decimal import Decimal
from fractions import Fraction

from ..common import HarnessError, pmap, rotate, seed
from ..models import D, dpow
from ..world import get_world

POWERS = (-3, -2, -1, 2, 3, 4)
ROOTS = (-2, -1, 1, 2, 3)
REL = Decimal("1e-9")


# ------------------------------------------------------------------ the model
# value = (kind, prefix exponents {base: exponent}, factor exponents {generator name: e},
#          bases used by the leaves)


class M:
    __slots__ = ("pfx", "fac", "bases")

    def __init__(self, pfx, fac, bases):
        self.pfx = {b: e for b, e in pfx.items() if e != 0}
        self.fac = {k: e for k, e in fac.items() if e != 0}
        self.bases = frozenset(bases)

    def mixed(self):
        return len(self.bases) > 1

    def key(self):
        return (tuple(sorted(self.pfx.items())), tuple(sorted(self.fac.items())))

    def mul(self, o):
        return M(_add(self.pfx, o.pfx, 1), _add(self.fac, o.fac, 1), self.bases | o.bases)

    def div(self, o):
        return M(_add(self.pfx, o.pfx, -1), _add(self.fac, o.fac, -1), self.bases | o.bases)

    def pow(self, n):
        return M({b: e * n for b, e in self.pfx.items()}, {k: e * n for k, e in self.fac.items()}, self.bases)

    def root(self, n):
        if any(e % n for e in self.pfx.values()) or any(e % n for e in self.fac.values()):
            return None
        return M({b: e // n for b, e in self.pfx.items()}, {k: e // n for k, e in self.fac.items()}, self.bases)

    def value(self):
        v = Decimal(1)
        for b, e in self.pfx.items():
            v *= Decimal(b) ** e
        return v

    def show(self):
        p = "*".join(f"{b}^{e}" for b, e in sorted(self.pfx.items()))
        f = "*".join(f"{k}^{e}" for k, e in sorted(self.fac.items()))
        return "*".join(x for x in (p, f) if x) or "1"


def _add(a, b, sign):
    out = dict(a)
    for k, v in b.items():
        out[k] = out.get(k, 0) + sign * v
    return out


# ------------------------------------------------------------------ sorts


class Sort:
    """Binds the model to the real objects of one sort."""

    name = ""

    def __init__(self, w):
        self.w = w
        self.table = {}  # model key -> object (first seen)
        self.back = {}  # id(object) -> model key
        self.keep = []  # keep objects alive so that ids stay unique
        self.viols = []
        self.ops = 0
        self.laws = {}
        self.job = None

    # -- to be provided
    def generators(self):
        raise NotImplementedError

    def observe(self, obj):
        """Structure the real object reports, as (prefix (base, exponent), {name: e})."""
        raise NotImplementedError

    def in_box(self, m):
        return True

    # -- oracle
    def check(self, obj, m, expr):
        """Compare one real result with its model value; returns the canonical object."""
        self.ops += 1
        sortcls = self.cls
        if not isinstance(obj, sortcls):
            self.bad("not_an_object_of_the_sort", expr, f"{expr} returned {obj!r}")
            return None
        (pb, pe), fac = self.observe(obj)
        if fac != m.fac:
            self.bad("wrong_factors", expr, f"{expr} has factors {fac}, normal form {m.show()}")
            return None
        if m.mixed():
            got = D(pb) ** D(pe) if pb else Decimal(1)
            if pb and not isinstance(pe, int):
                got = dpow(Decimal(pb), pe)
            want = m.value()
            if abs(got / want - 1) > REL:
                self.bad("wrong_scale", expr, f"{expr} has prefix {pb}^{pe} = {float(got)!r}, normal form {m.show()} = {float(want)!r}")
                return None
            return obj
        want_p = next(iter(m.pfx.items())) if m.pfx else (0, 0)
        if (pb, pe) != want_p or not isinstance(pe, int):
            self.bad("wrong_prefix", expr, f"{expr} has prefix {pb}^{pe!r}, normal form {m.show()}")
            return None
        k = m.key()
        first = self.table.get(k)
        if first is None:
            other = self.back.get(id(obj))
            if other is not None and other != k:
                self.bad("one_object_two_values", expr, f"{expr} (normal form {m.show()}) returned the object that already denotes {other}")
                return None
            self.table[k] = obj
            self.back[id(obj)] = k
            self.keep.append(obj)
            return obj
        if first is not obj:
            self.bad(
                "not_identical", expr,
                f"{expr} has normal form {m.show()} but is a different object ({obj!r} id {id(obj):#x}) "
                f"from the one that first denoted it ({first!r} id {id(first):#x})",
            )
            return None
        return obj

    def bad(self, kind, expr, detail):
        if len(self.viols) < 200:
            key = f"{self.name}: {expr}"
            self.viols.append((kind, key, detail, {"job": self.job, "key": key}))

    def law(self, name, ok_count=1):
        self.laws[name] = self.laws.get(name, 0) + ok_count

    # -- real operators, guarded
    def apply(self, op, expr, *args):
        try:
            return True, op(*args)
        except Exception as e:  # noqa
            self.bad("operator_raised", expr, f"{expr} raised {type(e).__name__}: {e}")
            return False, None


class DimSort(Sort):
    name = "dimension"

    def __init__(self, w):
        super().__init__(w)
        self.cls = w.m.Dimension
        m = w.m
        self.gens = [("Number", m.Number), ("Length", m.Length), ("Time", m.Time), ("Mass", m.Mass),
                     ("Charge", m.Charge)]
        self.index = {}
        for n, d in self.gens[1:]:
            self.index[d.exponents.index(1)] = n

    def generators(self):
        out = []
        for n, d in self.gens:
            out.append((n, d, M({}, {} if n == "Number" else {n: 1}, ())))
        m = self.w.m
        out.append(("Speed", m.Speed, M({}, {"Length": 1, "Time": -1}, ())))
        out.append(("Frequency", m.Frequency, M({}, {"Time": -1}, ())))
        out.append(("Area", m.Area, M({}, {"Length": 2}, ())))
        return out

    def observe(self, d):
        fac = {}
        for i, e in enumerate(d.exponents):
            if e:
                fac[self.index.get(i, f"#{i}")] = e
        return (0, 0), fac

    def in_box(self, m):
        return all(abs(e) <= 6 for e in m.fac.values())


class PrefixSort(Sort):
    name = "prefix"

    def __init__(self, w):
        super().__init__(w)
        self.cls = w.m.Prefix

    def generators(self):
        m = self.w.m
        out = [("Identity", m.IdentityPrefix, M({}, {}, ()))]
        from measured.iec import Kibi, Mebi
        from measured.si import Deci, Kilo, Mega, Milli

        for n, p in (("Kilo", Kilo), ("Milli", Milli), ("Mega", Mega), ("Deci", Deci), ("Kibi", Kibi), ("Mebi", Mebi)):
            out.append((n, p, M({p.base: p.exponent}, {}, (p.base,))))
        return out

    def observe(self, p):
        return (p.base, p.exponent) if p.base else (0, 0), {}

    def in_box(self, m):
        return all(abs(e) <= 90 or abs(e) in (330, 400, 1100) for e in m.pfx.values())


class UnitSort(Sort):
    name = "unit"

    def __init__(self, w):
        super().__init__(w)
        self.cls = w.m.Unit
        self.names = {}

    def generators(self):
        m = self.w.m
        from measured.iec import Bit, Kibi
        from measured.si import Gram, Hertz, Kilo, Kilogram, Meter, Milli, Newton, Second

        fa = m.Unit.define(m.Length, "verif unit a", "vfa")
        fb = m.Unit.define(m.Mass / m.Time, "verif unit b", "vfb")
        bases = [("m", Meter), ("s", Second), ("g", Gram), ("kg", Kilogram), ("bit", Bit), ("vfa", fa), ("vfb", fb)]
        self.names = {id(u): n for n, u in bases}
        self.keep.extend(u for _, u in bases)
        self.one = m.One
        self.prefixes = [("Kilo", Kilo), ("Milli", Milli), ("Kibi", Kibi)]
        out = [("One", m.One, M({}, {}, ()))]
        out += [(n, u, M({}, {n: 1}, ())) for n, u in bases]
        out.append(("Hertz", Hertz, M({}, {"s": -1}, ())))
        out.append(("Newton", Newton, M({}, {"kg": 1, "m": 1, "s": -2}, ())))
        out.append(("Kilo*Gram", Kilo * Gram, M({10: 3}, {"g": 1}, (10,))))
        out.append(("Kilo*Meter", Kilo * Meter, M({10: 3}, {"m": 1}, (10,))))
        out.append(("Milli*Second", Milli * Second, M({10: -3}, {"s": 1}, (10,))))
        out.append(("Kibi*Bit", Kibi * Bit, M({2: 10}, {"bit": 1}, (2,))))
        P = m.Prefix
        out.append(("Prefix(10,-330)*m", P(10, -330) * Meter, M({10: -330}, {"m": 1}, (10,))))
        out.append(("Prefix(10,-400)*m", P(10, -400) * Meter, M({10: -400}, {"m": 1}, (10,))))
        return out

    def observe(self, u):
        fac = {}
        for f, e in u.factors.items():
            if f is self.one:
                continue
            fac[self.names.get(id(f), f"?{f.name}")] = e
        p = u.prefix
        return ((p.base, p.exponent) if p.base else (0, 0)), {k: e for k, e in fac.items() if e != 0}

    def in_box(self, m):
        return all(abs(e) <= 12 for e in m.fac.values()) and all(abs(e) <= 120 or abs(e) in (330, 400, 660, 730, 800) for e in m.pfx.values())


SORTS = {"dimension": DimSort, "prefix": PrefixSort, "unit": UnitSort}


# ------------------------------------------------------------------ exploration


def unary_menu(s):
    menu = [("({})**%d" % n, (lambda x, n=n: x**n), (lambda m, n=n: m.pow(n))) for n in POWERS]
    menu += [("({}).root(%d)" % n, (lambda x, n=n: x.root(n)), (lambda m, n=n: m.root(n))) for n in ROOTS]
    if s.name == "unit":
        for pn, p in s.prefixes:
            pm = M({p.base: p.exponent}, {}, (p.base,))
            menu.append((pn + "*({})", (lambda x, p=p: p * x), (lambda m, pm=pm: pm.mul(m))))
            menu.append(("({})*" + pn, (lambda x, p=p: x * p), (lambda m, pm=pm: m.mul(pm))))
    return menu


BINOPS = [("*", lambda a, b: a * b, lambda a, b: a.mul(b)), ("/", lambda a, b: a / b, lambda a, b: a.div(b))]


def explore(sortname, height, shard, nshards, order, laws_part=None):
    """Height-bounded closure of the real operators.  Levels below the last are computed in
    full by every worker (cheap); the last level is sharded over the operand of height
    h-1.  Height <= 2: all ordered pairs with max operand height h-1.  Height 3: one operand
    of height 2, the other of height <= 1, both orders."""
    w = get_world()
    w.restore()
    s = SORTS[sortname](w)
    s.job = ["explore", sortname, height, shard, nshards, order, laws_part]
    gens = s.generators()
    if order == "reversed":
        gens = gens[::-1]
    else:
        gens = rotate(gens, seed() + (0 if order == "forward" else 3))
    reached = []  # (expr, obj, model, height)
    seen = set()

    def add(expr, obj, m, h):
        c = s.check(obj, m, expr)
        if c is None:
            return
        k = (m.key(), m.bases if m.mixed() else None)
        if k in seen or not s.in_box(m):
            return
        seen.add(k)
        reached.append((expr, c, m, h))

    for n, g, m in gens:
        add(n, g, m, 0)
    un = unary_menu(s)
    for h in range(1, height + 1):
        if order == "define-midway" and h == 2:
            # a new fundamental dimension is defined while anonymous dimensions (and units that
            # point at them) already exist: every one of them must stay THE object for its value
            w.m.Dimension.define("verif midway dimension", "Vmd")
        snapshot = list(reached)
        prev = [r for r in snapshot if r[3] == h - 1]
        if h <= 2:
            older = [r for r in snapshot if r[3] < h - 1]
        else:
            older = [r for r in snapshot if r[3] <= 1]
        mine = prev
        if h == height and nshards > 1:
            mine = [r for i, r in enumerate(prev) if i % nshards == shard]
        for a in mine:
            pairs = [(a, b) for b in prev] if h <= 2 else []
            for b in older:
                pairs.append((a, b))
                pairs.append((b, a))
            for x, y in pairs:
                for on, rop, mop in BINOPS:
                    expr = f"({x[0]}){on}({y[0]})"
                    ok, r = s.apply(rop, expr, x[1], y[1])
                    if ok:
                        add(expr, r, mop(x[2], y[2]), h)
            for fmt, rop, mop in un:
                mm = mop(a[2])
                if mm is None:
                    continue  # root not defined in the free abelian group: C01's business
                expr = fmt.format(a[0])
                ok, r = s.apply(rop, expr, a[1])
                if ok:
                    add(expr, r, mm, h)
    out = {"sort": sortname, "height": height, "order": order, "states": len(reached), "ops": s.ops,
           "laws": {}, "samples": [r[0] for r in reached[-3:]],
           "mixed_states": sum(1 for r in reached if r[2].mixed())}
    if laws_part is not None:
        before = s.ops
        laws(s, reached, *laws_part)
        out["laws"] = s.laws
        out["order"] = "laws"
    out["viols"] = s.viols
    w.restore()
    return out


def same(s, a, b, mixed, law, expr):
    if a is b:
        s.law(law)
        return
    if mixed:
        (ab, ae), af = s.observe(a)
        (bb, be), bf = s.observe(b)
        va = dpow(Decimal(ab), ae) if ab else Decimal(1)
        vb = dpow(Decimal(bb), be) if bb else Decimal(1)
        if af == bf and abs(va / vb - 1) <= REL:
            s.law(law + " (numeric, mixed bases)")
            return
    s.bad("law_" + law.split()[0], expr, f"law {law}: {expr}: {a!r} is not {b!r}")


def laws(s, reached, part=0, nparts=1):
    """The laws named in the property, instantiated over everything reached (this worker's
    slice of it)."""
    ident = {"dimension": lambda: s.w.m.Number, "prefix": lambda: s.w.m.IdentityPrefix, "unit": lambda: s.w.m.One}[s.name]()
    small = [r for r in reached if r[3] <= 1]
    for i, (expr, x, m, _) in enumerate(reached):
        if i % nparts != part:
            continue
        mx = m.mixed()
        try:
            same(s, x * ident, x, mx, "neutral", f"({expr})*1")
            same(s, ident * x, x, mx, "neutral", f"1*({expr})")
            same(s, x / ident, x, mx, "neutral", f"({expr})/1")
            same(s, x * x**-1, ident, mx, "inverse", f"({expr})*({expr})**-1")
            same(s, x / x, ident, mx, "inverse", f"({expr})/({expr})")
            same(s, x**1, x, mx, "power-one", f"({expr})**1")
            same(s, x**0, ident, mx, "power-zero", f"({expr})**0")
            for n in (-3, -2, -1, 1, 2, 3):
                same(s, (x**n).root(n), x, mx, "root-of-power", f"(({expr})**{n}).root({n})")
            for a in (-2, -1, 1, 2, 3):
                for b in (-2, -1, 1, 2):
                    same(s, x**a * x**b, x ** (a + b), mx, "power-sum", f"x**{a}*x**{b} for x={expr}")
                    same(s, (x**a) ** b, x ** (a * b), mx, "power-product", f"(x**{a})**{b} for x={expr}")
        except Exception as e:  # noqa
            s.bad("law_raised", expr, f"a law instance over x={expr} raised {type(e).__name__}: {e}")
    for j, ((ea, a, ma, _), (eb, b, mb, _)) in enumerate(itertools.product(small, repeat=2)):
        if j % nparts != part:
            continue
        mx = ma.mixed() or mb.mixed() or len(ma.bases | mb.bases) > 1
        try:
            same(s, a * b, b * a, mx, "commutative", f"({ea})*({eb})")
            same(s, a / b, a * b**-1, mx, "quotient", f"({ea})/({eb})")
            same(s, (a / b) ** -1, b / a, mx, "quotient-inverse", f"(({ea})/({eb}))**-1")
        except Exception as e:  # noqa
            s.bad("law_raised", f"{ea} , {eb}", f"{type(e).__name__}: {e}")
    tri = small[:18]
    for j, ((ea, a, ma, _), (eb, b, mb, _), (ec, c, mc, _)) in enumerate(itertools.product(tri, repeat=3)):
        if j % nparts != part:
            continue
        mx = len(ma.bases | mb.bases | mc.bases) > 1
        try:
            same(s, (a * b) * c, a * (b * c), mx, "associative", f"({ea})*({eb})*({ec})")
            same(s, (a / b) / c, a / (b * c), mx, "associative-quotient", f"({ea})/({eb})/({ec})")
        except Exception as e:  # noqa
            s.bad("law_raised", f"{ea} , {eb} , {ec}", f"{type(e).__name__}: {e}")


# ------------------------------------------------------------------ boxes


def dim_box(args):
    """All ordered pairs of the box |e| <= r over (Length, Time, Mass) x {*, /}; all powers."""
    r, shard, nshards = args
    w = get_world()
    w.restore()
    s = DimSort(w)
    s.job = ["dimbox", r, shard, nshards]
    m = w.m
    elems = []
    rng = range(-r, r + 1)
    for a, b, c in itertools.product(rng, repeat=3):
        expr = f"L^{a}*T^{b}*M^{c}"
        obj = m.Length**a * m.Time**b * m.Mass**c
        mm = M({}, {"Length": a, "Time": b, "Mass": c}, ())
        if s.check(obj, mm, expr) is not None:
            elems.append((expr, obj, mm))
    for i, (ea, a, ma) in enumerate(elems):
        if i % nshards != shard:
            continue
        for eb, b, mb in elems:
            s.check(a * b, ma.mul(mb), f"({ea})*({eb})")
            s.check(a / b, ma.div(mb), f"({ea})/({eb})")
        for n in range(-4, 5):
            s.check(a**n, ma.pow(n), f"({ea})**{n}")
            if n:
                mr = ma.root(n)
                if mr is not None:
                    ok, rr = s.apply(lambda x: x.root(n), f"({ea}).root({n})", a)
                    if ok:
                        s.check(rr, mr, f"({ea}).root({n})")
    w.restore()
    return {"sort": "dimension-box", "states": len(s.table), "ops": s.ops, "viols": s.viols, "laws": {},
            "samples": [elems[0][0], elems[-1][0]], "mixed_states": 0, "height": 0, "order": "box"}


def prefix_box(args):
    """Registered prefixes + anonymous ones of both bases: all ordered pairs x {*, /}; powers, roots."""
    shard, nshards = args
    w = get_world()
    w.restore()
    s = PrefixSort(w)
    s.job = ["prefixbox", shard, nshards]
    P = w.m.Prefix
    elems = [("Identity", w.m.IdentityPrefix, M({}, {}, ()))]
    for p in sorted(set(P._by_name.values()), key=lambda p: (p.base, p.exponent)):
        elems.append((p.name, p, M({p.base: p.exponent}, {}, (p.base,))))
    have = {(p.base, p.exponent) for _, p, _ in elems}
    for e in list(range(-30, 31)):
        if e and (10, e) not in have:
            elems.append((f"Prefix(10,{e})", P(10, e), M({10: e}, {}, (10,))))
    for e in (-400, -330, -324, -323, 330, 400):
        # beyond the float range: base**exponent underflows to 0.0 / overflows; identity must
        # still follow the exponent, not the numeric scale
        elems.append((f"Prefix(10,{e})", P(10, e), M({10: e}, {}, (10,))))
    for e in (-1200, -1100, -1075, 1100):
        elems.append((f"Prefix(2,{e})", P(2, e), M({2: e}, {}, (2,))))
    for e in list(range(-80, 81, 10)) + [1, -1, 3, 7]:
        if e and (2, e) not in have:
            elems.append((f"Prefix(2,{e})", P(2, e), M({2: e}, {}, (2,))))
    for expr, obj, mm in elems:
        s.check(obj, mm, expr)
    for i, (ea, a, ma) in enumerate(elems):
        if i % nshards != shard:
            continue
        for eb, b, mb in elems:
            for on, r, mr in (("*", lambda: a * b, ma.mul(mb)), ("/", lambda: a / b, ma.div(mb))):
                expr = f"({ea}){on}({eb})"
                ok, res = s.apply(lambda: r(), expr)
                if ok:
                    s.check(res, mr, expr)
        for n in range(-4, 5):
            ok, res = s.apply(lambda: a**n, f"({ea})**{n}")
            if ok:
                s.check(res, ma.pow(n), f"({ea})**{n}")
            if n:
                mr = ma.root(n)
                if mr is not None:
                    ok, res = s.apply(lambda: a.root(n), f"({ea}).root({n})")
                    if ok:
                        s.check(res, mr, f"({ea}).root({n})")
                ok, res = s.apply(lambda: (a**n).root(n), f"(({ea})**{n}).root({n})")
                if ok:
                    s.check(res, ma, f"(({ea})**{n}).root({n})")
    w.restore()
    return {"sort": "prefix-box", "states": len(s.table), "ops": s.ops, "viols": s.viols, "laws": {},
            "samples": [elems[1][0], elems[-1][0]], "mixed_states": 0, "height": 0, "order": "box"}


def _job(job):
    kind = job[0]
    if kind == "explore":
        return explore(*job[1:])
    if kind == "dimbox":
        return dim_box(job[1:])
    if kind == "prefixbox":
        return prefix_box(job[1:])
    raise HarnessError(kind)


def run(rep, tier):
    thorough = tier == "thorough"
    jobs = []
    n3 = 16
    for sortname in ("dimension", "prefix", "unit"):
        for order in ("forward", "reversed", "rotated"):
            jobs.append(("explore", sortname, 2, 0, 1, order))
        if sortname in ("dimension", "unit"):
            jobs.append(("explore", sortname, 2, 0, 1, "define-midway"))
        nl = 12 if sortname == "unit" else 2
        for k in range(nl):
            jobs.append(("explore", sortname, 2, 0, 1, "forward", (k, nl)))
        if thorough or sortname != "unit":
            for sh in range(n3):
                jobs.append(("explore", sortname, 3, sh, n3, "forward"))
        else:
            # quick: height 3 for units restricted to one shard in sixteen would not be a
            # complete level, so it is left to the thorough tier
            pass
    r = 4 if thorough else 3
    for sh in range(8):
        jobs.append(("dimbox", r, sh, 8))
    for sh in range(4):
        jobs.append(("prefixbox", sh, 4))
    res = pmap(_job, jobs)
    states = transitions = 0
    laws_total = {}
    per = {}
    samples = []
    for job, r_ in zip(jobs, res):
        rep.extend(r_["viols"])
        transitions += r_["ops"]
        label = f"{r_['sort']}/h{r_['height']}/{r_['order']}"
        if label in per:
            per[label]["ops"] += r_["ops"]
            per[label]["states"] = max(per[label]["states"], r_["states"])
        else:
            per[label] = {"states": r_["states"], "ops": r_["ops"], "mixed_base_states": r_["mixed_states"]}
            samples += r_["samples"][:2]
        for k, v in r_["laws"].items():
            laws_total[k] = laws_total.get(k, 0) + v
    # states: distinct group elements of the deepest complete exploration per sort + boxes
    best = {}
    for label, d in per.items():
        srt = label.split("/")[0]
        best[srt] = max(best.get(srt, 0), d["states"])
    states = sum(best.values())
    rep.cov.update(
        {
            "states": states,
            "transitions": transitions,
            "traces_validated_against_impl": transitions,
            "explorations": per,
            "law_instances": laws_total,
            "samples": samples[:12],
            "exhaustive": True,
            "bound": "height 2 complete for all three sorts (three generator orders); height 3 with one operand of height <= 1 for "
            + ("dimensions, prefixes and units" if thorough else "dimensions and prefixes (units: thorough tier)")
            + f"; dimension box |e|<={r} all ordered pairs; prefix box (registered + base-10 exponents [-30,30] + base-2 exponents) all ordered pairs",
        }
    )
    rep.assumptions.append(
        "states are group elements (interned objects) reached, transitions are real operator applications, each compared with the "
        "free-abelian-group normal form (traces_validated_against_impl = transitions: the model is evaluated alongside every real application)"
    )
    rep.assumptions.append("expressions whose leaves carry prefixes of different bases are compared numerically at 1e-9, their factors exactly")


# ------------------------------------------------------------------ replay


def replay(obj, kind=None):
    """Identity depends on who interned an object first, so a violation is replayed by
    re-running the (deterministic) exploration job that found it, in a fresh interpreter."""
    job = tuple(obj["job"])
    r = _job(job)
    for k, key, detail, _ in r["viols"]:
        if key == obj["key"] and (kind is None or k == kind):
            return True, detail
    return False, f"job {job} reports {len(r['viols'])} violation(s), none with key {obj['key']!r}"

"""C03 — quantity operators obey dimensional analysis; incommensurables are rejected.

Complete product operator x operand kind x magnitude type x unit pool, against a
dimension-vector model (vectors of the operands' units are trusted: C01 checks those)."""
import itertools
from decimal import Decimal

from ..common import chunked, pmap, rotate
from ..world import get_world

# zero (int, float, Decimal), perfect squares/cubes/sixth powers and both signs are all in the alphabet:
# each is a class some operator could plausibly special-case
MAGS = [3, -2, 2.5, -0.5, Decimal("1.5"), Decimal("-4"), 0, 0.0, Decimal("0"), Decimal("64"), 64, 0.25]
NUMBERS = [2, -3, 0.5, Decimal("2.5")]
POWERS = [-3, -2, -1, 0, 1, 2, 3]
BINOPS = ["+", "-", "*", "/", "==", "!=", "<", "<=", ">", ">="]

_READY = False


def prepare(w):
    global _READY
    if not _READY:
        w.restore()
        w.m.Length.unit("verif lonely", "vlonely")
        w.base = w.snapshot()
        _READY = True


def pool(w, thorough):
    prepare(w)
    from measured.iec import Bit, Kibi
    from measured.si import Gram, Hertz, Kilo, Meter, Newton, Second, Watt, Liter, Pascal
    from measured.us import Foot, PoundForce, Acre

    One = w.m.One
    lonely = w.m.Unit._by_name["verif lonely"]
    units = [
        ("One", One), ("Meter", Meter), ("km", Kilo * Meter), ("Foot", Foot), ("Second", Second),
        ("m/s", Meter / Second), ("m^2", Meter**2), ("Newton", Newton), ("lbf", PoundForce),
        ("Hertz", Hertz), ("Gram", Gram), ("kg", Kilo * Gram), ("Kibit", Kibi * Bit), ("lonely", lonely),
    ]
    if thorough:
        units += [
            ("1/s^2", Second**-2), ("N/m^2", Newton / Meter**2), ("W/(m^2*Hz)", Watt / (Meter**2 * Hertz)),
            ("L/acre", Liter / Acre), ("kPa", Kilo * Pascal), ("1/(km*lbf)", One / (Kilo * Meter * PoundForce)),
        ]
    return units


def vec(u):
    return tuple(u.dimension.exponents)


def vadd(a, b):
    return tuple(x + y for x, y in zip(a, b))


def vsub(a, b):
    return tuple(x - y for x, y in zip(a, b))


def vmul(a, n):
    return tuple(x * n for x in a)


def apply_bin(op, a, b):
    if op == "+":
        return a + b
    if op == "-":
        return a - b
    if op == "*":
        return a * b
    if op == "/":
        return a / b
    if op == "==":
        return a == b
    if op == "!=":
        return a != b
    if op == "<":
        return a < b
    if op == "<=":
        return a <= b
    if op == ">":
        return a > b
    if op == ">=":
        return a >= b
    raise ValueError(op)


ALLOWED_EXC = ("TypeError", "ConversionNotFound")


def judge_qq(w, op, la, ua, ma, lb, ub, mb):
    """quantity (op) quantity; returns (outcome class, violation or None)"""
    Q = w.m.Quantity
    qa, qb = Q(ma, ua), Q(mb, ub)
    same = ua.dimension is ub.dimension
    dec = isinstance(ma, Decimal) or isinstance(mb, Decimal)
    if op == "/" and mb == 0:
        return "skip", None
    try:
        r = apply_bin(op, qa, qb)
        exc = None
    except Exception as e:  # noqa
        r, exc = None, type(e).__name__
    key_shape = f"quantity {op} quantity"
    where = f"({ma!r} {la}) {op} ({mb!r} {lb})"
    if op in ("*", "/"):
        if exc:
            return "raised", ("supported_operation_raised", key_shape, f"{where} raised {exc}")
        if not isinstance(r, Q):
            return "bare", ("result_not_a_quantity", key_shape, f"{where} returned {type(r).__name__}")
        want = vadd(vec(ua), vec(ub)) if op == "*" else vsub(vec(ua), vec(ub))
        if vec(r.unit) != want:
            return "dim", ("wrong_dimension", key_shape, f"{where} has dimension {r.unit.dimension}, expected exponents {want}")
        if dec != isinstance(r.magnitude, Decimal):
            return "type", ("decimal_not_preserved", key_shape, f"{where} magnitude is {type(r.magnitude).__name__}")
        return "ok", None
    if op in ("+", "-"):
        if not same:
            if exc in ALLOWED_EXC:
                return "rejected", None
            return "accepted", ("incommensurable_not_rejected", key_shape, f"{where} gave {exc or r!r} instead of raising TypeError/ConversionNotFound")
        if exc:
            if exc in ALLOWED_EXC:
                return "noconv", None
            return "raised", ("unexpected_exception", key_shape, f"{where} raised {exc}")
        if not isinstance(r, Q):
            return "bare", ("result_not_a_quantity", key_shape, f"{where} returned {type(r).__name__}")
        if r.unit is not ua:
            return "unit", ("sum_not_in_left_unit", key_shape, f"{where} is in {r.unit}, not the left operand's {ua}")
        if dec != isinstance(r.magnitude, Decimal):
            return "type", ("decimal_not_preserved", key_shape, f"{where} magnitude is {type(r.magnitude).__name__}")
        return "ok", None
    if op in ("==", "!="):
        if exc:
            return "raised", ("comparison_raised", key_shape, f"{where} raised {exc}")
        if not isinstance(r, bool):
            return "bare", ("comparison_not_bool", key_shape, f"{where} returned {r!r}")
        if not same and r != (op == "!="):
            return "eq", ("incommensurable_compare_equal", key_shape, f"{where} is {r}")
        return "ok", None
    # ordering
    if not same:
        if exc == "TypeError" or exc == "ConversionNotFound":
            return "rejected", None
        return "accepted", ("incommensurable_not_rejected", key_shape, f"{where} gave {exc or r!r} instead of raising TypeError")
    if exc:
        if exc in ALLOWED_EXC:
            return "noconv", None
        return "raised", ("unexpected_exception", key_shape, f"{where} raised {exc}")
    if not isinstance(r, bool):
        return "bare", ("comparison_not_bool", key_shape, f"{where} returned {r!r}")
    return "ok", None


def judge_mixed(w, la, ua, ma):
    """quantity with number / unit on either side; powers, roots, unary; in_unit."""
    Q, U = w.m.Quantity, w.m.Unit
    out = []
    qa = Q(ma, ua)
    dec_a = isinstance(ma, Decimal)

    def check(expr, shape, fn, want_vec, dec, must_support=True):
        try:
            r = fn()
        except TypeError:
            if must_support:
                out.append(("supported_operation_raised", shape, f"{expr} raised TypeError"))
            return "typeerror"
        except Exception as e:  # noqa
            out.append(("unexpected_exception", shape, f"{expr} raised {type(e).__name__}: {e}"))
            return "raised"
        if not isinstance(r, Q):
            out.append(("result_not_a_quantity", shape, f"{expr} returned {type(r).__name__} {r!r}"))
            return "bare"
        if vec(r.unit) != want_vec:
            out.append(("wrong_dimension", shape, f"{expr} = {r!r} has dimension {r.unit.dimension}, expected exponents {want_vec}"))
            return "dim"
        if dec is not None and dec != isinstance(r.magnitude, Decimal):
            out.append(("decimal_not_preserved", shape, f"{expr} magnitude is {type(r.magnitude).__name__}"))
            return "type"
        return "ok"

    n = 0
    va = vec(ua)
    zero = tuple(0 for _ in va)
    for k in NUMBERS:
        d = dec_a or isinstance(k, Decimal)
        n += 4
        check(f"({ma!r} {la}) * {k!r}", "quantity * number", lambda: qa * k, va, d)
        check(f"{k!r} * ({ma!r} {la})", "number * quantity", lambda: k * qa, va, d)
        check(f"({ma!r} {la}) / {k!r}", "quantity / number", lambda: qa / k, va, d)
        if ma != 0:
            check(f"{k!r} / ({ma!r} {la})", "number / quantity", lambda: k / qa, vmul(va, -1), d)
    for lu, u in CURRENT_POOL:
        n += 4
        check(f"({ma!r} {la}) * {lu}", "quantity * unit", lambda: qa * u, vadd(va, vec(u)), dec_a)
        check(f"{lu} * ({ma!r} {la})", "unit * quantity", lambda: u * qa, vadd(va, vec(u)), dec_a)
        check(f"({ma!r} {la}) / {lu}", "quantity / unit", lambda: qa / u, vsub(va, vec(u)), dec_a)
        check(f"{lu} / ({ma!r} {la})", "unit / quantity", lambda: u / qa, vsub(vec(u), va), dec_a, must_support=False)
        # conversion
        n += 1
        try:
            r = qa.in_unit(u)
            if u.dimension is not ua.dimension:
                out.append(("incommensurable_not_rejected", "in_unit", f"({ma!r} {la}).in_unit({lu}) returned {r!r}"))
            elif r.unit is not u:
                out.append(("conversion_in_wrong_unit", "in_unit", f"({ma!r} {la}).in_unit({lu}) is in {r.unit}"))
            elif dec_a != isinstance(r.magnitude, Decimal):
                out.append(("decimal_not_preserved", "in_unit", f"({ma!r} {la}).in_unit({lu}) magnitude {type(r.magnitude).__name__}"))
        except Exception as e:  # noqa
            if type(e).__name__ not in ALLOWED_EXC:
                out.append(("unexpected_exception", "in_unit", f"({ma!r} {la}).in_unit({lu}) raised {type(e).__name__}"))
    for p in POWERS:
        n += 1
        if ma == 0 and p <= 0:
            continue  # 0**0 and 0**negative are excluded from the alphabet (Decimal raises on 0**0)
        check(f"({ma!r} {la}) ** {p}", "quantity ** n", lambda: qa**p, vmul(va, p), dec_a if p != 0 or True else None)
    for r_ in [d for d in POWERS if d != 0]:
        if ma < 0 or (ma == 0 and r_ < 0):
            continue
        if any(e % r_ for e in va) or any(e % r_ for e in ua.factors.values() if True) or (ua.prefix.exponent % r_ if ua.prefix.base else 0):
            continue  # root undefined in the group: C01/C02's business
        n += 1
        check(f"({ma!r} {la}).root({r_})", "quantity.root(n)", lambda: qa.root(r_), tuple(e // r_ for e in va), dec_a)
    n += 3
    check(f"-({ma!r} {la})", "-quantity", lambda: -qa, va, dec_a)
    check(f"+({ma!r} {la})", "+quantity", lambda: +qa, va, dec_a)
    check(f"abs({ma!r} {la})", "abs(quantity)", lambda: abs(qa), va, dec_a)
    return n, out


CURRENT_POOL = None


def _chunk(args):
    global CURRENT_POOL
    thorough, idxs = args
    w = get_world()
    P = pool(w, thorough)
    CURRENT_POOL = P
    quantities = [(f"{l}", u, m) for (l, u) in P for m in MAGS]
    viols = []
    outcomes = {}
    n = 0
    nontrivial = set()
    for i in idxs:
        la, ua, ma = quantities[i]
        w.restore()
        for j, (lb, ub, mb) in enumerate(quantities):
            for op in BINOPS:
                oc, v = judge_qq(w, op, la, ua, ma, lb, ub, mb)
                if oc == "skip":
                    continue
                n += 1
                outcomes[f"{op}:{oc}"] = outcomes.get(f"{op}:{oc}", 0) + 1
                if ua is not ub:
                    nontrivial.add((i, j, op))
                if v:
                    viols.append((v[0], v[1], v[2], {"qq": [op, i, j], "thorough": thorough}))
        k, out = judge_mixed(w, la, ua, ma)
        n += k
        for kind, shape, detail in out:
            viols.append((kind, shape, detail, {"mixed": i, "thorough": thorough}))
    w.restore()
    return n, len(nontrivial), viols, outcomes


def run(rep, tier):
    thorough = tier == "thorough"
    w = get_world()
    P = pool(w, thorough)
    nq = len(P) * len(MAGS)
    idxs = rotate(list(range(nq)))
    res = pmap(_chunk, [(thorough, c) for c in chunked(idxs, 16)])
    outcomes = {}
    for r in res:
        rep.extend(r[2])
        for k, v in r[3].items():
            outcomes[k] = outcomes.get(k, 0) + v
    rep.cov.update(
        {
            "evaluations": sum(r[0] for r in res),
            "distinct_nontrivial": sum(r[1] for r in res),
            "rule": f"{len(P)} units x {len(MAGS)} magnitudes (int, float, Decimal, both signs) = {nq} quantities; every ordered pair x "
            f"{BINOPS}; every quantity x number/unit on either side of * and /; ** and root for n in [-3,3]; unary -, +, abs; in_unit to "
            "every pool unit. non-trivial = the two operand units differ",
            "units": [l for l, _ in P],
            "distinct_outcomes": dict(sorted(outcomes.items())),
            "samples": ["(3 Meter) + (2.5 Foot)", "Decimal('1.5') km / (-2 Second)", "2 / (3 m/s)", "(3 Newton) < (2 lbf)"],
            "exhaustive": True,
        }
    )
    rep.assumptions.append("operand units' own dimension vectors are trusted here (C01 checks them); zero divisors and even roots of negatives excluded")


def replay(obj, kind=None):
    global CURRENT_POOL
    w = get_world()
    P = pool(w, obj.get("thorough", False))
    CURRENT_POOL = P
    quantities = [(f"{l}", u, m) for (l, u) in P for m in MAGS]
    # a row (one left operand against every right operand, every operator, then the mixed
    # forms) is evaluated from one restored state, so an outcome may depend on what the
    # row did before it: the replay re-runs the row the same way and looks for the case
    i = obj["qq"][1] if "qq" in obj else obj["mixed"]
    n, nt, viols, outcomes = _chunk((obj.get("thorough", False), [i]))
    if "qq" in obj:
        hits = [v for v in viols if v[3].get("qq") == obj["qq"] and (kind is None or v[0] == kind)]
    else:
        hits = [v for v in viols if "mixed" in v[3] and (kind is None or v[0] == kind)]
    return bool(hits), "; ".join(v[2] for v in hits[:4]) or "consistent with dimensional analysis"

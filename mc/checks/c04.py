"""C04 — a conversion that returns a value returns the right value, in the asked unit.

Shipped definitions: complete enumeration of ordered pairs of equal-dimension unit shapes
in tiers (T1 named^e -> named^e for ALL named offset-free units of all modules; T1p with
every registered prefix on either side; T2 two-factor shapes factor-wise commensurable;
T3 named derived units <-> their spellings in base-dimension units, both directions, as
numerators and denominators; T4 three-factor shapes).  Synthetic definitions: every
connected definition graph on four fresh units with power-of-two ratios (plus a unit
defined as a product), both orientations, declaration orders; all ordered pairs x shapes.

Oracle: unit sizes solved in 60-digit arithmetic from the intercepted declarations
(models.SizeOracle); expected magnitude = m * size(src) / size(dst); the result's unit must
be the requested object.  A raised ConversionNotFound is not this property's business
(C07); any returned value is.
"""
import itertools
from decimal import Decimal

from ..common import HarnessError, chunked, pmap, rotate
from ..convspace import Space, mag, norm
from ..world import get_world

TOL = Decimal("1e-5")
# Decimal(3) right after the int 3, in the same restored state: equal values of different
# numeric types hash alike, so a memo keyed by the quantity would hand back the wrong type
MAGS = [3, Decimal("3"), 2.5, Decimal("1.5")]

# pools per dimension for the multi-factor tiers: names from several modules each
POOLS = {
    "L": ["meter", "foot", "inch", "mile", "nautical mile", "Ångström"],
    "T": ["second", "hour", "minute", "day"],
    "M": ["gram", "kilogram", "pound", "ounce", "tonne"],
    "V": ["liter", "gallon", "cup", "stere"],
    "A": ["acre", "hectare", "barn"],
    "F": ["newton", "pound-force"],
    "E": ["joule", "calorie", "erg", "electron-volt"],
    "P": ["watt", "horsepower", "metric horsepower"],
    "Pr": ["pascal", "pounds per square inch"],
    "Q": ["coulomb", "atomic charge"],
    "B": ["bit", "byte"],
}

# named derived units and the base-dimension pools their spellings are drawn from:
# name -> list of (pool key, exponent)
SPELL = {
    "joule": [("M", 1), ("L", 2), ("T", -2)],
    "calorie": [("M", 1), ("L", 2), ("T", -2)],
    "kilowatt-hour": [("M", 1), ("L", 2), ("T", -2)],
    "newton": [("M", 1), ("L", 1), ("T", -2)],
    "pound-force": [("M", 1), ("L", 1), ("T", -2)],
    "watt": [("M", 1), ("L", 2), ("T", -3)],
    "horsepower": [("M", 1), ("L", 2), ("T", -3)],
    "pascal": [("M", 1), ("L", -1), ("T", -2)],
    "pounds per square inch": [("M", 1), ("L", -1), ("T", -2)],
    "liter": [("L", 3)],
    "gallon": [("L", 3)],
    "acre": [("L", 2)],
    "hectare": [("L", 2)],
    "knot": [("L", 1), ("T", -1)],
    "hertz": [("T", -1)],
    "langley": [("M", 1), ("T", -2)],
    "g-force": [("L", 1), ("T", -2)],
    "ampere": [("Q", 1), ("T", -1)],
    "baud": [("B", 1), ("T", -1)],
    "sverdrup": [("L", 3), ("T", -1)],
    "gray": [("L", 2), ("T", -2)],
}
SPELL_POOLS = {"M": ["gram", "kilogram", "pound"], "L": ["meter", "foot", "inch"], "T": ["second", "hour"],
               "Q": ["coulomb"], "B": ["bit", "byte"]}
# second-level spellings: a derived unit inside the spelling of another
SPELL2 = {
    "joule": [[("F", 1), ("L", 1)], [("P", 1), ("T", 1)], [("Pr", 1), ("V", 1)]],
    "watt": [[("E", 1), ("T", -1)], [("F", 1), ("L", 1), ("T", -1)]],
    "pascal": [[("F", 1), ("A", -1)], [("F", 1), ("L", -2)], [("E", 1), ("V", -1)]],
    "newton": [[("E", 1), ("L", -1)], [("Pr", 1), ("A", 1)]],
    "horsepower": [[("F", 1), ("L", 1), ("T", -1)]],
}


# ------------------------------------------------------------------ case lists


def t1_cases(sp, thorough):
    exps = (1, -1, 2, -2, 3, -3) if thorough else (1, -1, 2, 3)
    out = []
    for dim, names in sorted(sp.groups.items()):
        for a in names:
            for b in names:
                if a == b:
                    continue
                for e in exps:
                    out.append(((None, ((a, e),)), (None, ((b, e),))))
    return out


def t1p_cases(sp, thorough):
    out = []
    prefixes = sorted(sp.prefixes) if thorough else ["kilo", "milli", "micro", "mega", "kibi", "mebi", "centi", "deca"]
    for key, names in POOLS.items():
        names = names[:3]
        for a in names:
            for b in names:
                for p in prefixes:
                    for e in (1, -1, 2):
                        if a != b:
                            out.append(((p, ((a, e),)), (None, ((b, e),))))
                            out.append(((None, ((a, e),)), (p, ((b, e),))))
                        for q in (("kilo", "mebi", "micro") if thorough else ("kilo",)):
                            if p != q or a != b:
                                out.append(((p, ((a, e),)), (q, ((b, e),))))
    return out


def t1q_cases(sp, thorough):
    """Every named unit pair of one dimension with a prefix on the source or on the target
    (thorough only; the quick tier keeps to the pools of T1p)."""
    out = []
    if not thorough:
        return out
    for dim, names in sorted(sp.groups.items()):
        for a in names:
            for b in names:
                if a == b:
                    continue
                for p in ("kilo", "milli", "mebi"):
                    out.append(((p, ((a, 1),)), (None, ((b, 1),))))
                    out.append(((None, ((a, 1),)), (p, ((b, 1),))))
                out.append((("micro", ((a, -1),)), ("kibi", ((b, -1),))))
    return out


def t2_cases(sp, thorough):
    keys = list(POOLS) if thorough else ["L", "T", "M", "V", "F", "E"]
    k = 4 if thorough else 3
    exps = (1, -1, 2, -2) if thorough else (1, -1, 2)
    out = []
    for d1, d2 in itertools.combinations(keys, 2):
        p1, p2 = POOLS[d1][:k], POOLS[d2][:k]
        for a, c in itertools.product(p1, repeat=2):
            for b, d in itertools.product(p2, repeat=2):
                if a == c and b == d:
                    continue
                for i in exps:
                    for j in exps:
                        out.append(((None, ((a, i), (b, j))), (None, ((c, i), (d, j)))))
    # same-dimension two-factor shapes: a^i*b^j -> c^(i+j)
    for key in keys:
        p = POOLS[key][:k]
        for a, b, c in itertools.product(p, repeat=3):
            if a == b:
                continue
            for i, j in ((1, 1), (2, 1), (1, -2), (-1, -1), (2, -1), (1, 2)):
                if i + j == 0:
                    continue
                out.append(((None, ((a, i), (b, j))), (None, ((c, i + j),))))
                out.append(((None, ((c, i + j),)), (None, ((a, i), (b, j)))))
    return out


def t2s_cases(sp, thorough):
    """Both sides built from the SAME set of units with different exponents (ft*in^2 ->
    ft^2*in, h/s -> s/h, acre*ft -> acre^2*ft^-1 ...): two units of one dimension, or of
    dependent dimensions (length with area / volume), optionally a prefix on one side."""
    out = []
    rel = [("L", "L", 1), ("T", "T", 1), ("M", "M", 1), ("V", "V", 1), ("L", "A", 2), ("L", "V", 3), ("E", "E", 1), ("B", "B", 1)]
    k = 3 if thorough else 2
    rng = (-2, -1, 1, 2)
    for pa, pb, r in rel:
        for a in POOLS[pa][:k + 1]:
            for b in POOLS[pb][:k]:
                if a == b:
                    continue
                for i in rng:
                    for j in rng:
                        for k2 in rng:
                            for l in rng:
                                if (i, j) == (k2, l) or i + r * j != k2 + r * l:
                                    continue
                                src, dst = ((a, i), (b, j)), ((a, k2), (b, l))
                                out.append(((None, src), (None, dst)))
                                if thorough or (i, j) == (1, 2):
                                    out.append((("kilo", src), (None, dst)))
                                    out.append(((None, src), ("milli", dst)))
    return out


def t5_cases(sp, thorough):
    """Shapes whose factors combine into another dimension (V/L -> A, A*L -> V, E/F -> L,
    P*T -> E, F/A -> Pr ...): a named derived unit next to a base unit on one side, a unit of
    the resulting dimension (named, or spelled as a power) on the other, both directions,
    prefixes on either side.  One direction is often unplannable; whatever returns is judged."""
    out = []
    rel = [("V", "L", -1, "A", 2), ("V", "A", -1, "L", 1), ("A", "L", -1, "L", 1), ("A", "L", 1, "V", 3), ("E", "F", -1, "L", 1),
           ("E", "L", -1, "F", None), ("P", "T", 1, "E", None), ("E", "T", -1, "P", None), ("F", "A", -1, "Pr", None),
           ("Pr", "A", 1, "F", None), ("V", "T", -1, "V", None)]
    k = 3 if thorough else 2
    prefixes = [None, "milli", "kilo"] + (["micro", "mebi"] if thorough else [])
    for X, Y, ey, Z, zpow in rel:
        for x in POOLS[X][:k]:
            for y in POOLS[Y][:k]:
                targets = [((z, 1),) for z in POOLS[Z][:k]]
                if zpow:
                    targets += [((l, zpow),) for l in POOLS["L"][:2]]
                if Z == "V" and X == "V":
                    targets = [((z, 1), (y, ey)) for z in POOLS["V"][:k] if z != x]
                for dst in targets:
                    src = ((x, 1), (y, ey))
                    for p in prefixes:
                        for q in prefixes:
                            if p and q and not thorough:
                                continue
                            out.append(((p, src), (q, dst)))
                            out.append(((q, dst), (p, src)))
    return out


def _spellings(parts, pools):
    choices = [[(n, e) for n in pools[k]] for k, e in parts]
    for combo in itertools.product(*choices):
        names = [n for n, _ in combo]
        if len(set(names)) != len(names):
            continue
        yield tuple(combo)


def t3_cases(sp, thorough):
    out = []
    pools = dict(SPELL_POOLS)
    for name, parts in SPELL.items():
        for spelling in _spellings(parts, pools):
            for e in (1, -1) + ((2,) if thorough else ()):
                named = (None, ((name, e),))
                spelled = (None, tuple((n, x * e) for n, x in spelling))
                out.append((named, spelled))
                out.append((spelled, named))
            # named unit next to another factor: (named / second) <-> (spelling / second)
            other = "minute" if any(n in ("second", "hour") for n, _ in spelling) else "second"
            for e2 in (1, -1):
                a = (None, ((name, 1), (other, e2)))
                b = (None, tuple(spelling) + ((other, e2),))
                out.append((a, b))
                out.append((b, a))
    allpools = {k: v[: (3 if thorough else 2)] for k, v in POOLS.items()}
    for name, alts in SPELL2.items():
        for parts in alts:
            for spelling in _spellings(parts, allpools):
                for e in (1, -1):
                    named = (None, ((name, e),))
                    spelled = (None, tuple((n, x * e) for n, x in spelling))
                    out.append((named, spelled))
                    out.append((spelled, named))
    if thorough:
        # prefixed named derived units against spellings
        for name in ("joule", "newton", "watt", "pascal", "liter", "hertz"):
            for spelling in _spellings(SPELL[name], pools):
                for p in ("kilo", "milli", "mega"):
                    out.append(((p, ((name, 1),)), (None, tuple(spelling))))
                    out.append(((None, tuple(spelling)), (p, ((name, 1),))))
    return out


def t4_cases(sp, thorough):
    out = []
    k = 2
    exps = (1, -1, 2, -2) if thorough else (1, -1)
    triples = [("M", "L", "T"), ("L", "T", "Q"), ("V", "T", "M"), ("F", "L", "T"), ("E", "T", "A")]
    if not thorough:
        triples = triples[:2]
    for d1, d2, d3 in triples:
        p1, p2, p3 = POOLS[d1][:k], POOLS[d2][:k], POOLS[d3][:k]
        for a, b, c in itertools.product(p1, p2, p3):
            for a2, b2, c2 in itertools.product(p1, p2, p3):
                if (a, b, c) == (a2, b2, c2):
                    continue
                for i, j, l in itertools.product(exps, repeat=3):
                    out.append(((None, ((a, i), (b, j), (c, l))), (None, ((a2, i), (b2, j), (c2, l)))))
    return out


TIERS = [("T1", t1_cases), ("T1p", t1p_cases), ("T1q", t1q_cases), ("T2", t2_cases), ("T2s", t2s_cases), ("T3", t3_cases), ("T4", t4_cases), ("T5", t5_cases)]


# ------------------------------------------------------------------ judging one case

_SPACE = None


def space():
    global _SPACE
    if _SPACE is None:
        _SPACE = Space(get_world())
    return _SPACE


def judge(sp, src, dst, m):
    """-> (outcome class, violation tuple or None)"""
    w = sp.w
    su, du = sp.unit(src), sp.unit(dst)
    if su.dimension is not du.dimension:
        return "skipped: different dimensions", None
    if su is du:
        return "skipped: same unit", None
    ss, ds = sp.oracle.unit_size(su), sp.oracle.unit_size(du)
    label = f"{sp.show(src)} -> {sp.show(dst)}"
    rp = {"src": src, "dst": dst, "m": repr(m)}
    try:
        r = (m * su).in_unit(du)
    except w.conv.ConversionNotFound:
        return "ConversionNotFound", None
    except Exception as e:  # noqa
        return f"raised {type(e).__name__}", None  # C07's business
    if r.unit is not du:
        return "returned", ("wrong_unit", label, f"({m!r} {su}).in_unit({du}) came back in {r.unit}", rp)
    expected = mag(m) * ss / ds
    try:
        got = mag(r.magnitude)
    except Exception:  # noqa
        return "returned", ("not_a_number", label, f"magnitude {r.magnitude!r}", rp)
    tol = TOL * sp.degree(src, dst)
    if not got.is_finite() or abs(got / expected - 1) > tol:
        return "returned", (
            "wrong_value", label,
            f"({m!r} {su}).in_unit({du}) = {r.magnitude!r}; the declared equivalences give {float(expected)!r} "
            f"(relative error {float(abs(got / expected - 1)) if got.is_finite() else 'inf'}, tolerance {float(tol):.0e})",
            rp,
        )
    if isinstance(m, Decimal) != isinstance(r.magnitude, Decimal):
        return "returned", ("magnitude_type", label, f"{type(m).__name__} in, {type(r.magnitude).__name__} out", rp)
    return "returned", None


def _chunk(cases):
    sp = space()
    w = sp.w
    out = {"n": 0, "returned": set(), "outcomes": {}, "viols": []}
    for k, (src, dst) in enumerate(cases):
        w.restore()
        for m in MAGS[: 2 + (k % 3 == 0) * 2]:
            oc, v = judge(sp, src, dst, m)
            if oc.startswith("skipped"):
                continue
            out["n"] += 1
            out["outcomes"][oc] = out["outcomes"].get(oc, 0) + 1
            if oc == "returned":
                out["returned"].add((norm(src), norm(dst)))
            if v:
                out["viols"].append(v)
    w.restore()
    out["returned"] = len(out["returned"])
    return out


# ------------------------------------------------------------------ synthetic systems

SIZES = {"A": 1, "B": 2, "C": 8, "D": 64}  # exact powers of two: float arithmetic is exact
NODES = "ABCD"
ALL_EDGES = list(itertools.combinations(NODES, 2))


def connected(edges):
    seen = {"A"}
    grow = True
    while grow:
        grow = False
        for a, b in edges:
            if (a in seen) != (b in seen):
                seen |= {a, b}
                grow = True
    return len(seen) == 4


def synthetic_configs(thorough):
    """(edges, orientation, order index) for every connected graph on four labelled nodes."""
    out = []
    for r in range(3, 7):
        for edges in itertools.combinations(ALL_EDGES, r):
            if not connected(edges):
                continue
            if r <= (4 if thorough else 3):
                orders = list(itertools.permutations(range(r)))
            else:
                orders = [tuple(range(r)), tuple(reversed(range(r)))]
            for orient in ("up", "down", "mixed"):
                for order in orders:
                    out.append((edges, orient, order))
    return out


def synthetic_queries():
    q = []
    for a, b in itertools.permutations(NODES, 2):
        for e in (1, 2, -1, 3, -2):
            q.append((((a, e),), ((b, e),)))
        q.append((((a, 1), ("second", -1)), ((b, 1), ("second", -1))))
        q.append((((a, 1), ("hour", -2)), ((b, 1), ("minute", -2))))
        q.append((((a, 2), ("gram", 1)), ((b, 2), ("kilogram", 1))))
    for a, b, c, d in itertools.permutations(NODES, 4):
        q.append((((a, 1), (b, 1)), ((c, 1), (d, 1))))
        q.append((((a, 1), (b, -1)), ((c, 1), (d, -1))))
        q.append((((a, 2), (b, 1)), ((c, 3),)))
    for a in NODES:
        for b in NODES:
            q.append((((("Z", 1),)), ((a, 1), (b, 1))))
            q.append((((a, 1), (b, 1)), (("Z", 1),)))
            q.append(((("Z", -1),), ((a, -1), (b, -1))))
        q.append(((("Z", 1),), ((a, 2),)))
        q.append((((a, 2),), (("Z", 1),)))
        q.append(((("Z", 1), (a, 1)), ((a, 3),)))
    # opaque units of mixed-sign / negative dimensions (speed V1 = 2 V2, frequency F1 = 4 F2)
    # in numerators, denominators, products and cancelling positions, and a unit defined
    # as a quotient (Q = 2 A/second) on either side of a fraction
    for x, y in (("V1", "V2"), ("V2", "V1"), ("F1", "F2"), ("F2", "F1")):
        for e in (1, -1, 2, -2, 3):
            q.append((((x, e),), ((y, e),)))
        for t, e in (("second", 1), ("second", -1), ("second", 2), ("hour", 1)):
            q.append((((x, 1), (t, e)), ((y, 1), (t, e))))
            q.append((((x, -1), (t, e)), ((y, -1), (t, e))))
        q.append((((x, 1), ("hour", 1)), ((y, 1), ("minute", 1))))
        for a, b in (("A", "B"), ("C", "A"), ("D", "D")):
            q.append((((x, 1), (a, 1)), ((y, 1), (b, 1))))
            q.append((((a, 1), (x, -1)), ((b, 1), (y, -1))))
            q.append((((a, 2), (x, -2)), ((b, 2), (y, -2))))
            q.append((((a, 1), (x, 1), (y, -1)), ((b, 1),)))
            q.append((((b, 1),), ((a, 1), (x, 1), (y, -1))))
            q.append((((a, 1), (x, 2), (y, -1)), ((b, 1), (y, 1))))
        q.append((((x, 2), (y, -1)), ((y, 1),)))
        q.append((((x, 1),), ((x, 2), (y, -1))))
    for v, w_ in (("V1", "V2"), ("V2", "V1")):
        for f, g in (("F1", "F2"), ("F2", "F1"), ("F1", "F1")):
            q.append((((v, 1), (f, 1)), ((w_, 1), (g, 1))))
            q.append((((v, 1), (f, -1)), ((w_, 1), (g, -1))))
            q.append((((v, -1), (f, 1)), ((w_, -1), (g, 1))))
    # two units defined as quotients with different numerator AND denominator units
    # (Q1 = 2 A/T1, Q2 = 16 B/T2, T1 = 8 T2), in numerators and denominators
    for x, y in (("Q1", "Q2"), ("Q2", "Q1")):
        for e in (1, -1, 2, -2):
            q.append((((x, e),), ((y, e),)))
        for a, b in (("A", "B"), ("C", "D"), ("second", "second"), ("T1", "T2")):
            q.append((((a, 1), (x, -1)), ((b, 1), (y, -1))))
            q.append((((a, 1), (x, 1)), ((b, 1), (y, 1))))
            q.append((((a, -1), (x, -1)), ((b, -1), (y, -1))))
        q.append((((x, 1), ("T1", 1)), (("A", 1),)))
        q.append((((x, 1), ("T2", 1)), (("C", 1),)))
        q.append((((x, 1), ("T1", 1)), ((y, 1), ("T2", 1))))
        q.append(((("A", 1), (x, -1)), (("T2", 1),)))
        q.append(((("T1", 1),), (("D", 1), (x, -1))))
        q.append((((x, -1),), (("T2", 1), ("B", -1))))
        q.append(((("T1", 1), ("A", -1)), ((x, -1),)))
    for a in NODES:
        for t in ("second", "hour"):
            q.append(((("Q", 1),), ((a, 1), (t, -1))))
            q.append((((a, 1), (t, -1)), (("Q", 1),)))
            q.append(((("Q", -1),), ((a, -1), (t, 1))))
            q.append((((a, -1), (t, 1)), (("Q", -1),)))
            q.append(((("Q", 2),), ((a, 2), (t, -2))))
            q.append(((("Q", 1), (t, 1)), ((a, 1),)))
            q.append((((a, 1),), (("Q", 1), (t, 1))))
        for b in NODES:
            q.append((((a, 1), ("Q", -1)), (("second", 1),)))
            q.append((((a, 1), ("Q", -1)), ((b, 1), ("Q", -1))))
            q.append((((a, 1), ("Q", -1)), (("minute", 1),)))
            q.append(((("hour", 1),), ((a, 1), ("Q", -1))))
            q.append((((a, 2), ("Q", -1)), ((b, 1), ("minute", 1))))
    return q


def _syn_chunk(configs):
    w = get_world()
    m = w.m
    from measured import Area, Length
    from measured.si import Gram, Hour, Kilogram, Minute, Second

    extra = {"second": (Second, Decimal(1)), "hour": (Hour, Decimal(3600)), "minute": (Minute, Decimal(60)),
             "gram": (Gram, Decimal(1)), "kilogram": (Kilogram, Decimal(1000))}
    queries = synthetic_queries()
    out = {"n": 0, "returned": set(), "outcomes": {}, "viols": []}
    for edges, orient, order in configs:
        w.restore()
        U = {n: Length.unit(f"verif syn {n}", f"vs{n}") for n in NODES}
        Z = Area.unit("verif syn z", "vsz")
        size = {n: Decimal(SIZES[n]) for n in NODES}
        size["Z"] = Decimal(4 * SIZES["A"] * SIZES["B"])
        for k in order:
            a, b = edges[k]
            if orient == "down" or (orient == "mixed" and k % 2):
                a, b = b, a
            ra, rb = SIZES[a], SIZES[b]
            # 1 a = (ra/rb) b, written without fractions where possible
            if ra >= rb:
                U[a].equals((ra // rb) * U[b])
            else:
                U[a].equals((1 / (rb // ra)) * U[b])
        Z.equals(4 * U["A"] * U["B"])
        U["Z"] = Z
        from measured import Frequency, Speed

        for nm, dim, sz in (("V1", Speed, 2), ("V2", Speed, 1), ("F1", Frequency, 4), ("F2", Frequency, 1), ("Q", Speed, 2)):
            U[nm] = dim.unit(f"verif syn {nm}", f"vs{nm}")
            size[nm] = Decimal(sz)
        U["V1"].equals(2 * U["V2"])
        if orient == "down":
            U["F2"].equals(0.25 * U["F1"])
        else:
            U["F1"].equals(4 * U["F2"])
        U["Q"].equals(2 * U["A"] / Second)
        from measured import Time

        for nm, sz in (("T1", 8), ("T2", 1)):
            U[nm] = Time.unit(f"verif syn {nm}", f"vs{nm}")
            size[nm] = Decimal(sz)
        U["T1"].equals(8 * U["T2"])
        for nm, sz in (("Q1", "0.25"), ("Q2", 32)):
            U[nm] = Speed.unit(f"verif syn {nm}", f"vs{nm}")
            size[nm] = Decimal(sz)
        U["Q1"].equals(2 * U["A"] / U["T1"])
        U["Q2"].equals(16 * U["B"] / U["T2"])
        snap = w.snapshot()

        def build(spec):
            u = None
            s = Decimal(1)
            for n, e in spec:
                if n in U:
                    f, fs = U[n], size[n]
                else:
                    f, fs = extra[n]
                u = f**e if u is None else u * f**e
                s *= fs**e
            return u, s

        cfg = {"edges": [list(e) for e in edges], "orient": orient, "order": list(order)}
        for src, dst in queries:
            w.restore(snap)
            su, ss = build(src)
            du, ds = build(dst)
            # ratios that are powers of two are exact in binary floating point; the
            # hour/minute shapes are not, and are held to 1e-12 instead
            exact = not any(n in ("hour", "minute") for n, _ in src + dst)
            for mg in (3, 0.5):
                out["n"] += 1
                try:
                    r = (mg * su).in_unit(du)
                except w.conv.ConversionNotFound:
                    oc = "ConversionNotFound"
                except Exception as e:  # noqa
                    oc = f"raised {type(e).__name__}"
                else:
                    oc = "returned"
                    out["returned"].add((tuple(map(tuple, cfg["edges"])), orient, tuple(order), src, dst))
                    label = f"synthetic {src} -> {dst}"
                    expected = mag(mg) * ss / ds
                    rp = {"syn": cfg, "src": src, "dst": dst, "m": repr(mg)}
                    if r.unit is not du:
                        out["viols"].append(("wrong_unit", label, f"came back in {r.unit}", rp))
                    elif (mag(r.magnitude) != expected) if exact else (abs(mag(r.magnitude) / expected - 1) > Decimal("1e-12")):
                        out["viols"].append((
                            "wrong_value_exact_system", label,
                            f"definitions {cfg}: ({mg} {su}).in_unit({du}) = {r.magnitude!r}, exact answer {expected}", rp))
                out["outcomes"][oc] = out["outcomes"].get(oc, 0) + 1
    w.restore()
    out["returned"] = len(out["returned"])
    return out


# ------------------------------------------------------------------ run / replay


def run(rep, tier):
    thorough = tier == "thorough"
    sp = space()
    missing = [n for names in list(POOLS.values()) + list(SPELL_POOLS.values()) for n in names if n not in sp.by_name]
    missing += [n for n in list(SPELL) + list(SPELL2) if n not in sp.by_name]
    if missing:
        raise HarnessError(f"pool units not available (renamed, or newly excluded as inconsistent?): {sorted(set(missing))}")
    total = {"n": 0, "returned": 0, "outcomes": {}}
    per_tier = {}
    samples = []
    for name, gen in TIERS:
        cases = gen(sp, thorough)
        # dedupe, keep order
        seen = set()
        uniq = []
        for c in cases:
            k = (norm(c[0]), norm(c[1]))
            if k not in seen:
                seen.add(k)
                uniq.append(c)
        cases = rotate(uniq)
        if not cases:
            continue
        res = pmap(_chunk, chunked(cases, 64))
        agg = {"pairs": len(cases), "evaluations": 0, "returned_pairs": 0, "outcomes": {}}
        for r in res:
            agg["evaluations"] += r["n"]
            agg["returned_pairs"] += r["returned"]
            for k, v in r["outcomes"].items():
                agg["outcomes"][k] = agg["outcomes"].get(k, 0) + v
            rep.extend(r["viols"])
        per_tier[name] = agg
        total["n"] += agg["evaluations"]
        total["returned"] += agg["returned_pairs"]
        samples.append(f"{name}: {sp.show(cases[0][0])} -> {sp.show(cases[0][1])}")
        rep.note(f"{name}: {agg['pairs']} pairs, {agg['returned_pairs']} returned a value, outcomes {agg['outcomes']}")
    configs = rotate(synthetic_configs(thorough))
    res = pmap(_syn_chunk, chunked(configs, 64))
    agg = {"configurations": len(configs), "evaluations": 0, "returned_cases": 0, "outcomes": {}}
    for r in res:
        agg["evaluations"] += r["n"]
        agg["returned_cases"] += r["returned"]
        for k, v in r["outcomes"].items():
            agg["outcomes"][k] = agg["outcomes"].get(k, 0) + v
        rep.extend(r["viols"])
    per_tier["synthetic"] = agg
    rep.note(f"synthetic: {agg}")
    total["n"] += agg["evaluations"]
    total["returned"] += agg["returned_cases"]
    rep.cov.update(
        {
            "evaluations": total["n"],
            "distinct_nontrivial": total["returned"],
            "rule": "ordered (source shape, target shape) pairs of equal dimension, source is not target, enumerated completely per tier; "
            "a case is non-trivial when in_unit RETURNED a value (then unit identity and magnitude are judged against sizes solved "
            "from the declarations); ConversionNotFound outcomes are counted but are C07's business",
            "tiers": per_tier,
            "named_units_in_T1": sum(len(v) for v in sp.groups.values()),
            "excluded_units": sp.excluded,
            "samples": samples + [str(configs[0])],
            "exhaustive": True,
        }
    )
    rep.assumptions += [
        "unit sizes are solved from the intercepted equals()/scale() declarations in 60-digit decimal arithmetic; float literals are read by repr",
        "units whose size differs by more than 1e-5 between two derivations from the declarations (C09 findings) and offset scales are excluded, see excluded_units",
        "tolerance 1e-5 x total |exponent| degree on shipped definitions; exact equality on the power-of-two synthetic systems",
    ]


def replay(obj, kind=None):
    if "syn" in obj:
        cfg = obj["syn"]
        config = (tuple(tuple(e) for e in cfg["edges"]), cfg["orient"], tuple(cfg["order"]))
        src = tuple(tuple(x) for x in obj["src"])
        dst = tuple(tuple(x) for x in obj["dst"])
        global synthetic_queries
        saved = synthetic_queries
        synthetic_queries = lambda: [(src, dst)]  # noqa
        try:
            r = _syn_chunk([config])
        finally:
            synthetic_queries = saved
        if r["viols"]:
            return True, r["viols"][0][2]
        return False, f"outcomes {r['outcomes']}"
    sp = space()
    sp.w.restore()
    src = (obj["src"][0], tuple(tuple(x) for x in obj["src"][1]))
    dst = (obj["dst"][0], tuple(tuple(x) for x in obj["dst"][1]))
    m = eval(obj["m"], {"Decimal": Decimal})
    # the magnitudes of one pair follow each other in one restored state: run them the same way
    r = _chunk([(src, dst)])
    hits = [v for v in r["viols"] if v[3].get("m") == obj["m"] and (kind is None or v[0] == kind)]
    if hits:
        return True, hits[0][2]
    sp.w.restore()
    oc, v = judge(sp, src, dst, m)
    if v:
        return True, v[2]
    return False, f"{sp.show(src)} -> {sp.show(dst)}: {oc}, agrees with the declarations"

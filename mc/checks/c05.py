"""C05 — conversion is an invertible linear scaling, independent of the route taken.

Relations only (no expected numbers): for every ordered pair / triple of equal-dimension
shapes of the C04 space x a magnitude alphabet x scale factors:
   conv(k*q) = k*conv(q);  conv(0) = 0;  sign preserved;  u -> u identity;
   u -> v -> u = original;  u -> v -> w = u -> w.
Shipped definitions: 1e-5 x degree (round trip / route), 1e-12 (linearity, float rounding).
Synthetic power-of-two systems (every connected definition graph on four units): 1e-12.
"""
import itertools
from decimal import Decimal

from ..common import HarnessError, chunked, pmap, rotate
from ..convspace import mag, norm
from ..world import get_world
from . import c04

MAGS = [0, 1, -1, 7, 0.5, 1e-3, -1e6, Decimal("2.5"), Decimal("-0.1"), 0.0, Decimal("0")]
KS = [2, -3, 0.5, 10]
LIN = Decimal("1e-12")
TOL = Decimal("1e-5")


def close(a, b, rel, floor=Decimal(0)):
    a, b = mag(a), mag(b)
    return abs(a - b) <= rel * max(abs(a), abs(b)) + floor


def sign(x):
    x = mag(x)
    return (x > 0) - (x < 0)


def conv(w, q, u):
    """-> (ok, quantity or outcome text)"""
    try:
        return True, q.in_unit(u)
    except w.conv.ConversionNotFound:
        return False, "ConversionNotFound"
    except Exception as e:  # noqa
        return False, f"raised {type(e).__name__}"


def relations(w, label, u, v, x, rel_rt, out, rp):
    """All relations over the pair (u, v) and optional third unit x."""
    viols = out["viols"]

    def bad(kind, detail, extra=None):
        r = dict(rp)
        if extra:
            r.update(extra)
        viols.append((kind, label, detail, r))

    results = {}
    for m in MAGS:
        q = m * u
        ok, r = conv(w, q, v)
        out["n"] += 1
        if not ok:
            out["outcomes"][r] = out["outcomes"].get(r, 0) + 1
            return
        out["outcomes"]["returned"] = out["outcomes"].get("returned", 0) + 1
        results[repr(m)] = r
        if r.unit is not v:
            bad("wrong_unit", f"({q}).in_unit({v}) came back in {r.unit}", {"m": repr(m)})
        if mag(m) == 0:
            if mag(r.magnitude) != 0:
                bad("zero_not_zero", f"({q}).in_unit({v}) = {r.magnitude!r}", {"m": repr(m)})
            continue
        if sign(r.magnitude) != sign(m):
            bad("sign_not_preserved", f"({q}).in_unit({v}) = {r.magnitude!r}", {"m": repr(m)})
        # homogeneity
        for k in KS:
            out["n"] += 1
            ok2, rk = conv(w, (k * q), v)
            if not ok2:
                bad("succeeds_for_q_fails_for_kq", f"({q}).in_unit({v}) returns but ({k}*{q}) gives {rk}", {"m": repr(m), "k": k})
                continue
            want = k * r
            if not close(rk.magnitude, want.magnitude, LIN):
                bad("not_homogeneous", f"conv({k} * {q}) = {rk.magnitude!r} but {k} * conv({q}) = {want.magnitude!r} (to {v})",
                    {"m": repr(m), "k": k})
        # round trip
        out["n"] += 1
        ok3, back = conv(w, r, u)
        if ok3:
            out["roundtrips"] += 1
            if not close(back.magnitude, m, rel_rt):
                bad("round_trip", f"{q} -> {v} -> back = {back.magnitude!r}", {"m": repr(m)})
        # via an intermediate
        if x is not None:
            ok4, direct = conv(w, q, x)
            ok5, via = conv(w, r, x)
            out["n"] += 2
            if ok4 and ok5:
                out["routes"] += 1
                if not close(direct.magnitude, via.magnitude, rel_rt):
                    bad("route_dependent", f"{q} -> {x} directly = {direct.magnitude!r}, via {v} = {via.magnitude!r}", {"m": repr(m)})
    # additivity over the magnitudes that returned: conv(a+b) = conv(a)+conv(b)
    keys = [k for k in results if mag(eval(k, {"Decimal": Decimal})) != 0]
    for a, b in zip(keys, keys[1:]):
        ma, mb = eval(a, {"Decimal": Decimal}), eval(b, {"Decimal": Decimal})
        if isinstance(ma, Decimal) != isinstance(mb, Decimal):
            continue
        s = ma + mb
        ok6, rs = conv(w, s * u, v)
        out["n"] += 1
        if ok6:
            want = mag(results[a].magnitude) + mag(results[b].magnitude)
            scale = max(abs(mag(results[a].magnitude)), abs(mag(results[b].magnitude)))
            if abs(mag(rs.magnitude) - want) > LIN * scale:
                bad("not_additive", f"conv({s!r} {u}) = {rs.magnitude!r} but conv({ma!r})+conv({mb!r}) = {want} (to {v})", {"m": a, "mb": b})


def identity(w, label, u, prefixed, out, rp):
    for m in MAGS:
        out["n"] += 1
        ok, r = conv(w, m * u, u)
        if not ok:
            out["viols"].append(("identity_fails", label, f"({m!r} {u}).in_unit({u}): {r}", dict(rp, m=repr(m))))
            continue
        same = (mag(r.magnitude) == mag(m)) if not prefixed else close(r.magnitude, m, LIN)
        if not same or r.unit is not u:
            out["viols"].append(("identity_changes_value", label, f"({m!r} {u}).in_unit({u}) = {r.magnitude!r} {r.unit}", dict(rp, m=repr(m))))


def _chunk(cases):
    sp = c04.space()
    w = sp.w
    out = {"n": 0, "outcomes": {}, "viols": [], "roundtrips": 0, "routes": 0, "pairs": 0}
    for case in cases:
        w.restore()
        if case[0] == "id":
            u = sp.unit(case[1])
            identity(w, f"{sp.show(case[1])} -> itself", u, u.prefix.base != 0, out, {"id": case[1]})
            continue
        _, a, b, c = case
        u, v = sp.unit(a), sp.unit(b)
        x = sp.unit(c) if c is not None else None
        if u.dimension is not v.dimension or u is v or (x is not None and x.dimension is not u.dimension):
            continue
        out["pairs"] += 1
        deg = sp.degree(a, b) if c is None else sp.degree(a, b, c)
        label = f"{sp.show(a)} -> {sp.show(b)}" + (f" -> {sp.show(c)}" if c is not None else "")
        relations(w, label, u, v, x, TOL * deg, out, {"a": a, "b": b, "c": c})
    w.restore()
    return out


def case_list(sp, thorough):
    cases = []
    k = 8 if thorough else 4
    exps = (1, -1, 2, -2, 3) if thorough else (1, -1)
    # T1 triples: K units per dimension, all ordered triples u != v (w free, != v)
    for dim, names in sorted(sp.groups.items()):
        pick = rotate(names)[:k] if len(names) > k else names
        for e in exps:
            for a in pick:
                cases.append(("id", (None, ((a, e),))))
                for p in ("kilo", "milli", "mebi"):
                    cases.append(("id", (p, ((a, e),))))
                for b in pick:
                    if a == b:
                        continue
                    sa, sb = (None, ((a, e),)), (None, ((b, e),))
                    cases.append(("rel", sa, sb, None))
                    for c in pick:
                        if c != b and c != a:
                            cases.append(("rel", sa, sb, (None, ((c, e),))))
        # all pairs of the whole group, exponent 1, pair relations only
        for a in names:
            for b in names:
                if a != b and not (a in pick and b in pick):
                    cases.append(("rel", (None, ((a, 1),)), (None, ((b, 1),)), None))
    # prefixes, T2, T3 shapes of C04: pair relations; and route independence through the
    # reverse pair's source for T3 (named <-> spelling1 <-> spelling2)
    for gen in (c04.t1p_cases, c04.t2_cases, c04.t3_cases) + ((c04.t4_cases,) if thorough else ()):
        lst = gen(sp, False)
        seen = set()
        for s, d in lst:
            kk = (norm(s), norm(d))
            if kk in seen:
                continue
            seen.add(kk)
            cases.append(("rel", s, d, None))
    t3 = c04.t3_cases(sp, False)
    by_src = {}
    for s, d in t3:
        by_src.setdefault(norm(s), []).append(d)
    for s, ds in by_src.items():
        for d1, d2 in itertools.permutations(ds[:4], 2):
            cases.append(("rel", s, d1, d2))
    return cases


# ------------------------------------------------------------------ synthetic exact systems


def _syn_chunk(configs):
    w = get_world()
    from measured import Area, Length

    out = {"n": 0, "outcomes": {}, "viols": [], "roundtrips": 0, "routes": 0, "pairs": 0}
    for edges, orient, order in configs:
        w.restore()
        U = {n: Length.unit(f"verif syn {n}", f"vs{n}") for n in c04.NODES}
        Z = Area.unit("verif syn z", "vsz")
        for k in order:
            a, b = edges[k]
            if orient == "down" or (orient == "mixed" and k % 2):
                a, b = b, a
            ra, rb = c04.SIZES[a], c04.SIZES[b]
            if ra >= rb:
                U[a].equals((ra // rb) * U[b])
            else:
                U[a].equals((1 / (rb // ra)) * U[b])
        Z.equals(4 * U["A"] * U["B"])
        snap = w.snapshot()
        cfg = {"edges": [list(e) for e in edges], "orient": orient, "order": list(order)}
        for e in (1, 2, -1):
            for a, b, c in itertools.permutations(c04.NODES, 3):
                w.restore(snap)
                out["pairs"] += 1
                relations(w, f"synthetic {a}^{e} -> {b}^{e} -> {c}^{e}", U[a] ** e, U[b] ** e, U[c] ** e, LIN, out,
                          {"syn": cfg, "a": a, "b": b, "c": c, "e": e})
        for a, b in itertools.permutations(c04.NODES, 2):
            w.restore(snap)
            out["pairs"] += 1
            relations(w, f"synthetic Z -> {a}*{b} -> {b}^2", Z, U[a] * U[b], U[b] ** 2, LIN, out,
                      {"syn": cfg, "a": "Z", "b": [a, b], "c": b, "e": 0})
    w.restore()
    return out


def run(rep, tier):
    thorough = tier == "thorough"
    sp = c04.space()
    cases = rotate(case_list(sp, thorough))
    res = pmap(_chunk, chunked(cases, 64))
    configs = rotate(c04.synthetic_configs(False))
    if not thorough:
        configs = [c for i, c in enumerate(configs) if c[2] == tuple(range(len(c[2])))]  # one declaration order per graph/orientation
    res += pmap(_syn_chunk, chunked(configs, 64))
    tot = {"n": 0, "roundtrips": 0, "routes": 0, "pairs": 0}
    outcomes = {}
    for r in res:
        rep.extend(r["viols"])
        for k in tot:
            tot[k] += r[k]
        for k, v in r["outcomes"].items():
            outcomes[k] = outcomes.get(k, 0) + v
    rep.cov.update(
        {
            "evaluations": tot["n"],
            "distinct_nontrivial": tot["roundtrips"] + tot["routes"],
            "rule": "ordered pairs / triples of distinct equal-dimension shapes (C04 space: all named units pairwise, K units per dimension "
            "for triples, prefixed, two- and three-factor and derived-vs-spelling shapes; synthetic power-of-two graphs) x magnitude alphabet "
            f"{[repr(m) for m in MAGS]} x scale factors {KS}; counted as non-trivial: each (pair, magnitude) whose round trip completed plus each "
            "(triple, magnitude) where both routes returned (a relation was actually evaluated)",
            "unit_pairs_and_triples": tot["pairs"],
            "round_trips_evaluated": tot["roundtrips"],
            "route_comparisons_evaluated": tot["routes"],
            "synthetic_configurations": len(configs),
            "distinct_outcomes": outcomes,
            "samples": [str(c) for c in cases[:5]],
            "exhaustive": True,
        }
    )
    rep.assumptions += [
        "linearity/additivity held to 1e-12 relative (float rounding), round trip and route independence to 1e-5 x degree on shipped definitions and 1e-12 on synthetic ones",
        "offset scales and the units C09 finds inconsistently defined are excluded (see C04 evidence)",
    ]


def replay(obj, kind=None):
    out = {"n": 0, "outcomes": {}, "viols": [], "roundtrips": 0, "routes": 0, "pairs": 0}
    if "syn" in obj:
        cfg = obj["syn"]
        config = (tuple(tuple(e) for e in cfg["edges"]), cfg["orient"], tuple(cfg["order"]))
        r = _syn_chunk([config])
        hits = [v for v in r["viols"] if v[3].get("a") == obj["a"] and v[3].get("b") == obj["b"] and v[3].get("c") == obj["c"] and v[3].get("e") == obj["e"]
                and (kind is None or v[0] == kind)]
        return (True, hits[0][2]) if hits else (False, "relations hold")
    sp = c04.space()

    def spec(s):
        return None if s is None else (s[0], tuple(tuple(x) for x in s[1]))

    if "id" in obj:
        r = _chunk([("id", spec(obj["id"]))])
    else:
        r = _chunk([("rel", spec(obj["a"]), spec(obj["b"]), spec(obj.get("c")))])
    hits = [v for v in r["viols"] if kind is None or v[0] == kind]
    return (True, hits[0][2]) if hits else (False, "relations hold")

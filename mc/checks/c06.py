"""C06 — arithmetic and comparison do not depend on the units operands are written in.

Physical values (SI) per dimension x EVERY re-expression of each operand (units of the
dimension's pool x registered SI and IEC prefixes) x operators + - == != < <= > >= (same
dimension) and * / ** (any dimensions): the SI value of the result must equal the same
operation on the SI values of the operands; comparisons must agree with the SI values for
separated pairs and be exactly as constructed for exact ties (prefix-only re-expressions
with integer magnitudes).
"""
import itertools
from decimal import Decimal

from ..common import HarnessError, chunked, pmap, rotate
from ..convspace import mag
from ..world import get_world
from . import c04

TOL = Decimal("1e-5")
FLT = Decimal("1e-12")

POOLS = {
    "L": ["meter", "foot", "inch", "mile", "nautical mile"],
    "T": ["second", "hour", "minute", "day"],
    "M": ["gram", "kilogram", "pound", "ounce"],
    "V": ["liter", "gallon", "cup", "stere"],
    "F": ["newton", "pound-force"],
    "E": ["joule", "calorie", "erg", "kilowatt-hour"],
    "P": ["watt", "horsepower", "metric horsepower"],
    "Pr": ["pascal", "pounds per square inch"],
    "B": ["bit", "byte", "nibble"],
    # pure powers of length units whose roots are several declared hops apart, next to named
    # area / volume units: the implicit conversion inside + - == < walks a multi-hop path
    "A2": [("yard", 2), ("pica", 2), ("mile", 2), ("inch", 2), "acre", ("hand", 2)],
    "V3": [("mile", 3), ("inch", 3), ("yard", 3), "liter", ("smoot", 3)],
    "iL": [("mile", -1), ("inch", -1), ("pica", -1), ("meter", -1)],
}


def _ne(entry):
    return entry if isinstance(entry, tuple) else (entry, 1)
PREFIXES = [None, "milli", "kilo", "kibi", "mebi", "micro", "deca"]
# physical values, as multiples of the coherent SI unit of the dimension (separated by far
# more than any tolerance); 1024/1000 makes the SI-vs-IEC prefixes distinguishable
VALUES = [Decimal(1), Decimal("2.5"), Decimal(1024), Decimal(1000), Decimal("0.004")]


def expressions(sp, key, thorough):
    """All (prefix, unit name) re-expressions for a pool."""
    names = POOLS[key] if thorough else POOLS[key][:(4 if key in ("A2", "V3", "iL") else 3)]
    pre = PREFIXES if thorough else PREFIXES[:5]
    if key in ("A2", "V3", "iL"):
        pre = [None, "kilo"] if thorough else [None]
    return [(p, n) for n in names for p in pre]


def quantity(sp, expr, value, as_decimal=False):
    p, n = expr
    spec = (p, (_ne(n),))
    u = sp.unit(spec)
    size = sp.oracle.unit_size(u)
    m = value / size
    m = m if as_decimal else float(m)
    return m * u, u, size


def si(sp, q):
    s = sp.oracle.unit_size(q.unit)
    return mag(q.magnitude) * s


def _chunk(args):
    thorough, cases = args
    sp = c04.space()
    w = sp.w
    out = {"n": 0, "nt": set(), "outcomes": {}, "viols": []}

    def bump(k):
        out["outcomes"][k] = out["outcomes"].get(k, 0) + 1

    for case in cases:
        w.restore()
        kind = case[0]
        if kind == "same":
            _, key, i, j, ea, eb, dec = case
            va, vb = VALUES[i], VALUES[j]
            qa, ua, sa = quantity(sp, ea, va, dec)
            qb, ub, sb = quantity(sp, eb, vb, dec)
            label = f"{key}: {va} as {ea[0] or ''}{ea[1]} (.) {vb} as {eb[0] or ''}{eb[1]}"
            rp = {"case": list(case)}
            va, vb = si(sp, qa), si(sp, qb)  # what was actually written (float rounding of the magnitude included)
            scale = max(abs(va), abs(vb))
            for name, fn, model in (("+", lambda: qa + qb, va + vb), ("-", lambda: qa - qb, va - vb)):
                out["n"] += 1
                try:
                    r = fn()
                except w.conv.ConversionNotFound:
                    bump(f"{name}:ConversionNotFound")
                    continue
                except Exception as e:  # noqa
                    bump(f"{name}:raised {type(e).__name__}")
                    continue
                bump(f"{name}:value")
                out["nt"].add((name, key, i, j, ea, eb))
                got = si(sp, r)
                if abs(got - model) > TOL * scale:
                    out["viols"].append((f"sum_depends_on_units" if name == "+" else "difference_depends_on_units", label,
                                         f"({qa}) {name} ({qb}) = {r}: SI value {float(got)!r}, operands' SI values give {float(model)!r}", rp))
                if r.unit is not ua:
                    out["viols"].append(("result_not_in_left_unit", label, f"({qa}) {name} ({qb}) came back in {r.unit}", rp))
            separated = abs(va - vb) > Decimal("1e-4") * scale
            if separated:
                truth = {"==": False, "!=": True, "<": va < vb, "<=": va < vb, ">": va > vb, ">=": va > vb}
                for name, fn in (("==", lambda: qa == qb), ("!=", lambda: qa != qb), ("<", lambda: qa < qb),
                                 ("<=", lambda: qa <= qb), (">", lambda: qa > qb), (">=", lambda: qa >= qb)):
                    out["n"] += 1
                    try:
                        r = fn()
                    except TypeError:
                        bump(f"{name}:TypeError")
                        continue
                    except Exception as e:  # noqa
                        bump(f"{name}:raised {type(e).__name__}")
                        continue
                    bump(f"{name}:{r}")
                    out["nt"].add((name, key, i, j, ea, eb))
                    if r is not truth[name]:
                        out["viols"].append(("comparison_depends_on_units", label,
                                             f"({qa}) {name} ({qb}) is {r}; SI values {float(va)!r} vs {float(vb)!r}", rp))
        elif kind == "temp":
            _, i, j, sa, sb, pa, pb = case
            U = w.m.Unit._by_name
            P = sp.prefixes
            ua = (P[pa] * U[sa]) if pa else U[sa]
            ub = (P[pb] * U[sb]) if pb else U[sb]
            va, vb = TEMPS[i], TEMPS[j]
            fa = (Decimal(P[pa].base) ** P[pa].exponent) if pa else Decimal(1)
            fb = (Decimal(P[pb].base) ** P[pb].exponent) if pb else Decimal(1)
            ma, mb = float(t_from_kelvin(sa, va) / fa), float(t_from_kelvin(sb, vb) / fb)
            # exact zeros where the scale's zero point is hit
            qa, qb = ma * ua, mb * ub
            label = f"temperature: {va} K as {pa or ''}{sa} (.) {vb} K as {pb or ''}{sb}"
            rp = {"case": list(case)}
            if abs(va - vb) <= Decimal("1e-4") * max(va, vb, 1):
                continue
            truth = {"==": False, "!=": True, "<": va < vb, "<=": va < vb, ">": va > vb, ">=": va > vb}
            for name, fn in (("==", lambda: qa == qb), ("!=", lambda: qa != qb), ("<", lambda: qa < qb),
                             ("<=", lambda: qa <= qb), (">", lambda: qa > qb), (">=", lambda: qa >= qb)):
                out["n"] += 1
                try:
                    r = fn()
                except Exception as e:  # noqa
                    bump(f"temp {name}:raised {type(e).__name__}")
                    continue
                bump(f"temp {name}:{r}")
                out["nt"].add(("temp", name, i, j, sa, sb, pa, pb))
                if r is not truth[name]:
                    out["viols"].append(("comparison_depends_on_units", label,
                                         f"({qa}) {name} ({qb}) is {r}; in kelvin {va} vs {vb}", rp))
        elif kind == "tempsub":
            # a - b and a + b with the RIGHT operand re-expressed on every scale: the right operand is
            # converted into the left operand's unit, so the result (in a's unit) must not
            # depend on how b was written
            _, i, j, sa, pa = case
            U = w.m.Unit._by_name
            P = sp.prefixes
            ua = (P[pa] * U[sa]) if pa else U[sa]
            fa = (Decimal(P[pa].base) ** P[pa].exponent) if pa else Decimal(1)
            va, vb = TEMPS[i], TEMPS[j]
            ma = t_from_kelvin(sa, va) / fa
            mb_in_a = t_from_kelvin(sa, vb) / fa
            qa = float(ma) * ua
            rp = {"case": list(case)}
            for sb in TSCALES:
                for pb in (None, "kilo", "milli"):
                    ub = (P[pb] * U[sb]) if pb else U[sb]
                    fb = (Decimal(P[pb].base) ** P[pb].exponent) if pb else Decimal(1)
                    qb = float(t_from_kelvin(sb, vb) / fb) * ub
                    label = f"temperature: {va} K as {pa or ''}{sa} (.) {vb} K as {pb or ''}{sb}"
                    for name, fn, want in (("-", lambda: qa - qb, ma - mb_in_a), ("+", lambda: qa + qb, ma + mb_in_a)):
                        out["n"] += 1
                        try:
                            r = fn()
                        except Exception as e:  # noqa
                            bump(f"temp {name}:raised {type(e).__name__}")
                            continue
                        bump(f"temp {name}:value")
                        out["nt"].add(("tempsub", name, i, j, sa, pa, sb, pb))
                        scale = max(abs(ma), abs(mb_in_a), Decimal(1), Decimal("273.15") / fa)
                        if r.unit is not ua or abs(mag(r.magnitude) - want) > Decimal("1e-9") * scale:
                            out["viols"].append(("difference_depends_on_units" if name == "-" else "sum_depends_on_units", label,
                                                 f"({qa}) {name} ({qb}) = {r}; with the right operand written in the left one's unit it is {float(want)!r} {ua}", rp))
        elif kind == "late":
            # a unit that is compared BEFORE its equivalence is declared must afterwards compare
            # and add like any other spelling of the same length
            from measured import Length
            from measured.si import Centi, Meter
            from measured.us import Foot, Inch

            U_ = Length.unit("verif cubit", "vcb")
            rp = {"case": list(case)}
            if case[1]:
                try:
                    (1 * U_) == (0.5 * Meter)
                    (1 * U_) < (1 * Meter)
                    (1 * U_).in_unit(Meter)
                except Exception:  # noqa
                    pass
            U_.equals(0.5 * Meter)
            for lab, q in (("0.5 m", 0.5 * Meter), ("50 cm", 50 * (Centi * Meter)), ("19.68503937007874 in", 19.68503937007874 * Inch),
                           ("1.6404199475065617 ft", 1.6404199475065617 * Foot)):
                out["n"] += 3
                try:
                    s_ = (3 * U_) + q
                    d_ = (3 * U_) - q
                    lt = (1 * U_) < (2 * q)
                    gs, gd = si(sp, q) * 0 + mag(s_.magnitude) * Decimal("0.5"), mag(d_.magnitude) * Decimal("0.5")
                    ok = abs(gs - Decimal(2)) < Decimal("1e-6") and abs(gd - Decimal(1)) < Decimal("1e-6") and lt is True
                    eq = (1 * U_) == q
                    if lab in ("0.5 m", "50 cm"):
                        ok = ok and eq is True
                    out["nt"].add(("late", case[1], lab))
                    if not ok:
                        out["viols"].append(("late_declaration_depends_on_units", f"late declared unit vs {lab}",
                                             f"after {'a comparison and ' if case[1] else ''}declaring 1 cubit = 0.5 m: 3 cubit + {lab} = {s_}, - = {d_}, 1 cubit < 2*({lab}) is {lt}, == {eq}", rp))
                except Exception as e:  # noqa
                    out["viols"].append(("late_declaration_depends_on_units", f"late declared unit vs {lab}",
                                         f"after {'a comparison and ' if case[1] else ''}declaring 1 cubit = 0.5 m, operating with {lab} raised {type(e).__name__}: {e}", rp))
        elif kind == "tie":
            _, n, p, q, k = case
            # k units of p*n against k*ratio units of q*n, ratio = value(p)/value(q) an exact integer
            P = sp.prefixes
            u = sp.by_name[n]
            pu = P[p] * u if p else u
            qu = P[q] * u if q else u
            vp = (P[p].base ** P[p].exponent) if p else 1
            vq = (P[q].base ** P[q].exponent) if q else 1
            if vp % vq:
                continue
            # exact only while a single prefix base is involved (byte is 2^3 bit: kilo*byte has
            # a fractional base-2 exponent, which makes it a rounding tie, not an exact one)
            bases = {x.base for x in (u.prefix, P[p] if p else None, P[q] if q else None) if x is not None and x.base}
            if len(bases) > 1:
                continue
            # ... and while every effective prefix is a non-negative integer power (liter is
            # 10^-3 m^3: hecto*liter is 10^-1, a float factor)
            if any(not isinstance(x.prefix.exponent, int) or x.prefix.exponent < 0 for x in (pu, qu)):
                continue
            qa, qb = k * pu, (k * (vp // vq)) * qu
            label = f"tie: {k} {p or ''}{n} vs {k * (vp // vq)} {q or ''}{n}"
            rp = {"case": list(case)}
            exp = {"==": True, "!=": False, "<": False, "<=": True, ">": False, ">=": True}
            for a, b in ((qa, qb), (qb, qa)):
                for name, fn in (("==", lambda: a == b), ("!=", lambda: a != b), ("<", lambda: a < b), ("<=", lambda: a <= b),
                                 (">", lambda: a > b), (">=", lambda: a >= b)):
                    out["n"] += 1
                    try:
                        r = fn()
                    except Exception as e:  # noqa
                        out["viols"].append(("exact_tie_raises", label, f"({a}) {name} ({b}) raised {type(e).__name__}: {e}", rp))
                        continue
                    bump(f"tie {name}:{r}")
                    out["nt"].add(("tie", n, p, q, k, name))
                    if r is not exp[name]:
                        out["viols"].append(("exact_tie_wrong", label, f"({a}) {name} ({b}) is {r}", rp))
                out["n"] += 2
                try:
                    d, s = a - b, a + b
                    # the sum and difference go through a conversion (a multiplication by a
                    # rounded reciprocal), so they are held to float rounding, not to exactness
                    if abs(si(sp, d)) > FLT * abs(si(sp, a)):
                        out["viols"].append(("exact_tie_wrong", label, f"({a}) - ({b}) = {d}", rp))
                    if abs(si(sp, s) - 2 * si(sp, a)) > FLT * abs(si(sp, a)):
                        out["viols"].append(("exact_tie_wrong", label, f"({a}) + ({b}) = {s}", rp))
                except Exception as e:  # noqa
                    out["viols"].append(("exact_tie_raises", label, f"{type(e).__name__}: {e}", rp))
        else:  # "prod"
            _, k1, k2, i, j, ea, eb, dec = case
            va, vb = VALUES[i], VALUES[j]
            qa, ua, sa = quantity(sp, ea, va, dec)
            qb, ub, sb = quantity(sp, eb, vb, dec)
            va, vb = si(sp, qa), si(sp, qb)
            label = f"{k1}x{k2}: {ea[0] or ''}{ea[1]} (.) {eb[0] or ''}{eb[1]}"
            rp = {"case": list(case)}
            ops = [("*", lambda: qa * qb, va * vb), ("/", lambda: qa / qb, va / vb),
                   ("* unit", lambda: qa * ub, va * sb), ("/ unit", lambda: qa / ub, va / sb)]
            for n_ in (2, 3, -1, -2):
                ops.append((f"**{n_}", (lambda n_=n_: qa**n_), va**n_))
            # dimensionless operands that still carry a prefix (ratios of like quantities)
            from measured.iec import Bit, Byte, Mebi
            from measured.si import Kilo, Meter, Milli

            one = w.m.One
            for dn, du in (("kilo*one", Kilo * one), ("km/m", (Kilo * Meter) / Meter), ("byte/bit", Byte / Bit),
                           ("Mibit/kbit", (Mebi * Bit) / (Kilo * Bit)), ("mm/m", (Milli * Meter) / Meter)):
                dsz = sp.oracle.unit_size(du)
                dq = 1.5 * du
                dv = Decimal("1.5") * dsz
                ops.append((f"* ({dn})", (lambda dq=dq: qa * dq), va * dv))
                ops.append((f"({dn}) *", (lambda dq=dq: dq * qa), va * dv))
                ops.append((f"/ ({dn})", (lambda dq=dq: qa / dq), va / dv))
                ops.append((f"({dn}) /", (lambda dq=dq: dq / qa), dv / va))
                ops.append((f"* unit ({dn})", (lambda du=du: qa * du), va * dsz))
                ops.append((f"/ unit ({dn})", (lambda du=du: qa / du), va / dsz))
            ops.append(("*number", lambda: qa * 3, va * 3))
            ops.append(("number*", lambda: 3 * qa, va * 3))
            ops.append(("/number", lambda: qa / 4, va / 4))
            ops.append(("neg", lambda: -qa, -va))
            ops.append(("abs", lambda: abs(-qa), abs(va)))
            for name, fn, model in ops:
                out["n"] += 1
                try:
                    r = fn()
                except Exception as e:  # noqa
                    out["viols"].append(("operator_raised", label, f"{name} on ({qa}), ({qb}) raised {type(e).__name__}: {e}", rp))
                    continue
                bump(f"{name}:value")
                out["nt"].add((name, k1, k2, i, j, ea, eb))
                try:
                    got = si(sp, r)
                except Exception as e:  # noqa
                    out["viols"].append(("result_unit_unknown", label, f"{name}: {r}: {type(e).__name__}", rp))
                    continue
                if got is None or abs(got - model) > FLT * abs(model):
                    out["viols"].append(("product_depends_on_units", label,
                                         f"({qa}) {name} ({qb}) = {r}: SI value {float(got)!r}, operands' SI values give {float(model)!r}", rp))
                    continue
                # the same value as the library itself exposes it: prefixes expanded, and in
                # comparisons (a result whose prefix collapses to 0 or 1 would pass the above)
                try:
                    un = r.unprefixed()
                    gu = si(sp, un)
                    if un.unit.prefix.base != 0 or abs(gu - model) > Decimal("1e-9") * abs(model):
                        out["viols"].append(("product_depends_on_units", label,
                                             f"(({qa}) {name} ({qb})).unprefixed() = {un}: SI value {float(gu)!r}, expected {float(model)!r}", rp))
                    elif model != 0:
                        twice = r * 2
                        if (r == twice) or not ((r < twice) == (model > 0)) or not (r == r * 1):
                            out["viols"].append(("product_depends_on_units", label,
                                                 f"q = ({qa}) {name} ({qb}) = {r}: q == 2q is {r == twice}, q < 2q is {r < twice}", rp))
                except Exception as e:  # noqa
                    out["viols"].append(("operator_raised", label, f"observing ({qa}) {name} ({qb}) = {r} raised {type(e).__name__}: {e}", rp))
    w.restore()
    out["nt"] = len(out["nt"])
    return out


PROD_LEFT = [None, "milli", "micro", "pico", "kilo", "tera"]
PROD_RIGHT = [None, "kibi", "mebi", "gibi", "yobi", "kilo"]


def prod_expressions(sp, key, side, thorough):
    names = POOLS[key][: (3 if thorough else 2)]
    if key in ("A2", "V3", "iL"):
        return [(None, n) for n in names]
    return [(p, n) for n in names for p in (PROD_LEFT if side == 0 else PROD_RIGHT)]


# temperatures: comparisons only (the sum of two absolute temperatures is not a physical
# statement); values in kelvin, chosen so that some re-expressions have magnitude exactly 0
TEMPS = [Decimal(0), Decimal("273.15"), Decimal("255.3722222222222222"), Decimal(300), Decimal("233.15")]
TSCALES = ["kelvin", "celsius", "fahrenheit", "Rankine"]


def t_from_kelvin(scale, k):
    if scale == "kelvin":
        return k
    if scale == "celsius":
        return k - Decimal("273.15")
    if scale == "Rankine":
        return k * 9 / 5
    return k * 9 / 5 - Decimal("459.67")


def case_list(sp, thorough):
    cases = []
    nv = len(VALUES) if thorough else 4
    for key in POOLS:
        ex = expressions(sp, key, thorough)
        for i in range(nv):
            for j in range(nv):
                for ea in ex:
                    for eb in ex:
                        cases.append(("same", key, i, j, ea, eb, False))
        # Decimal magnitudes: a reduced product
        for i, j in ((0, 1), (1, 0), (2, 3)):
            for ea in ex[:6]:
                for eb in ex[:6]:
                    cases.append(("same", key, i, j, ea, eb, True))
    ups = ["kilo", "mega", "kibi", "mebi", "deca", "hecto", "giga", None]
    for n in ("meter", "bit", "gram", "second", "foot", "joule", "byte", "liter"):
        for p in ups:
            for q in ups:
                if p == q or p is None:
                    continue
                for k in (1, 3, 7, 1024):
                    cases.append(("tie", n, p, q, k))
    keys = list(POOLS)
    pairs = list(itertools.combinations_with_replacement(keys, 2)) if thorough else [("L", "T"), ("M", "L"), ("E", "T"), ("B", "T"), ("F", "L"), ("L", "L"), ("P", "T")]
    for i in range(len(TEMPS)):
        for j in range(len(TEMPS)):
            for sa in TSCALES:
                for sb in TSCALES:
                    for pa in (None, "kilo", "milli"):
                        for pb in (None, "kilo"):
                            cases.append(("temp", i, j, sa, sb, pa, pb))
    for i in range(len(TEMPS)):
        for j in range(len(TEMPS)):
            for sa in TSCALES:
                for pa in (None, "kilo"):
                    cases.append(("tempsub", i, j, sa, pa))
    cases.append(("late", 0))
    cases.append(("late", 1))
    for k1, k2 in pairs:
        e1 = prod_expressions(sp, k1, 0, thorough)
        e2 = prod_expressions(sp, k2, 1, thorough)
        for i, j in ((1, 2), (4, 3)):
            for ea in e1:
                for eb in e2:
                    cases.append(("prod", k1, k2, i, j, ea, eb, False))
        for ea in e1[:5]:
            for eb in e2[:5]:
                cases.append(("prod", k1, k2, 1, 4, ea, eb, True))
    return cases


def run(rep, tier):
    thorough = tier == "thorough"
    sp = c04.space()
    missing = [_ne(n)[0] for names in POOLS.values() for n in names if _ne(n)[0] not in sp.by_name]
    if missing:
        raise HarnessError(f"pool units not available: {missing}")
    cases = rotate(case_list(sp, thorough))
    res = pmap(_chunk, [(thorough, c) for c in chunked(cases, 64)])
    n = nt = 0
    outcomes = {}
    for r in res:
        rep.extend(r["viols"])
        n += r["n"]
        nt += r["nt"]
        for k, v in r["outcomes"].items():
            outcomes[k] = outcomes.get(k, 0) + v
    rep.cov.update(
        {
            "evaluations": n,
            "distinct_nontrivial": nt,
            "rule": "complete product: physical value pair x re-expression of the left operand x re-expression of the right operand "
            "(pool unit x prefix incl. SI and IEC) x operator; a case is non-trivial when the operator returned (sum/difference needed a "
            "conversion, comparison of separated values, product of prefixed units) and is counted once per (operator, values, re-expressions); "
            "exact ties are prefix-only re-expressions with integer magnitudes",
            "cases": len(cases),
            "distinct_outcomes": dict(sorted(outcomes.items())),
            "pools": {k: [str(x) for x in (v if thorough else v[:4])] for k, v in POOLS.items()},
            "prefixes": [p or "none" for p in (PREFIXES if thorough else PREFIXES[:5])],
            "samples": [str(c) for c in cases[:4]],
            "exhaustive": True,
        }
    )
    rep.assumptions += [
        "SI values come from the size oracle (declarations solved in 60-digit arithmetic); sums/differences/comparisons tolerate 1e-5 of the larger operand, products 1e-12",
        "comparisons are judged only for values separated by 1e-4 relative, or exact ties by construction",
    ]


def replay(obj, kind=None):
    case = obj["case"]

    def fix(x):
        return tuple(fix(y) for y in x) if isinstance(x, list) else x

    case = tuple(fix(x) for x in case)
    r = _chunk((True, [case]))
    hits = [v for v in r["viols"] if kind is None or v[0] == kind]
    return (True, hits[0][2]) if hits else (False, f"agrees with SI values; outcomes {r['outcomes']}")

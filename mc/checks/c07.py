"""C07 — impossible conversions fail only with ConversionNotFound, with or without -O.

Every ordered pair of equal-dimension one- and two-factor unit shapes over a pool from all
modules (+ a synthetic, partially connected system), each through in_unit, +, -, ==, <,
sorted.  The identical case list is executed by `python` (twice: determinism) and by
`python -O` in subprocesses; the outcome tables must be equal row by row.
"""
import json
import sys
import traceback

from ..common import HarnessError, chunked, pmap, rotate, run_py
from ..pools import POOL, build, group_by_dimension, pool_units, shape_specs, spec_name

OPS = ["in_unit", "add", "sub", "eq", "lt", "sorted"]
ALLOWED = {
    "in_unit": {"ConversionNotFound"},
    "add": {"ConversionNotFound"},
    "sub": {"ConversionNotFound"},
    "eq": set(),
    "lt": {"TypeError"},
    "sorted": {"TypeError"},
}


QUICK_POOL = {
    "Meter", "Foot", "Second", "Hour", "Kilogram", "Pound", "Liter", "Acre", "Newton",
    "PoundForce", "Joule", "BritishThermalUnit", "Watt", "Horsepower", "Hertz", "PSI",
}


def synthetic(m):
    """A small partially connected system; returns name -> unit."""
    from measured import Area, Length, Power, Time, Volume
    from measured.si import Second
    from measured.us import PoundForce

    s = {}
    for i in range(1, 5):
        s[f"X{i}"] = Length.unit(f"verif x{i}", f"vx{i}")
    s["X1"].equals(2 * s["X2"])
    s["X2"].equals(4 * s["X3"])
    s["ZA"] = Area.unit("verif za", "vza")
    s["ZA"].equals(1 * s["X1"] ** 2)
    s["ZV"] = Volume.unit("verif zv", "vzv")
    s["ZV"].equals(3 * s["X1"] * s["X2"] * s["X3"])
    s["ZW"] = Power.unit("verif zw", "vzw")
    s["ZW"].equals(5 * s["X1"] * PoundForce / Second)
    # isolated units of derived dimensions (no equivalences at all), and a connected pair
    from measured import Frequency, Speed

    s["PA"] = Area.unit("verif pa", "vpa")
    s["SV"] = Speed.unit("verif sv", "vsv")
    s["SW"] = Speed.unit("verif sw", "vsw")
    s["SW"].equals(2 * s["SV"])
    s["FQ"] = Frequency.unit("verif fq", "vfq")
    # an isolated force unit, a force and a speed unit defined as a product / quotient, and
    # dimensionless units: a connected pair and a lonely one
    from measured import Force, Number
    from measured.si import Gram

    s["FN"] = Force.unit("verif fn", "vfn")
    s["FS"] = Force.unit("verif fs", "vfs")
    s["FS"].equals(11 * Gram * s["X1"] / Second**2)
    s["SZ"] = Speed.unit("verif sz", "vsz")
    s["SZ"].equals(7 * s["X1"] / Second)
    s["DT"] = Number.unit("verif dt", "vdt")
    s["DQ"] = Number.unit("verif dq", "vdq")
    s["DT"].equals(4 * s["DQ"])
    s["DL"] = Number.unit("verif dl", "vdl")
    prev = None
    for i in range(41):
        c = Time.unit(f"verif c{i}", f"vc{i}")
        if prev is not None:
            prev.equals(2 * c)
        prev = c
        if i in (0, 20, 40):
            s[f"C{i}"] = c
    return s


def case_list(thorough):
    """Deterministic list of cases: ('pool', specA, specB) or ('syn', nameA, expA, nameB, expB)"""
    units = pool_units()
    specs = shape_specs(len(units))
    if not thorough:
        specs = [
            s
            for s in shape_specs(len(units), single_exps=(1, -1, 2, 3), pair_exps=(1, -1))
            if all(POOL[i][1] in QUICK_POOL for i, _ in s)
        ]
    groups = group_by_dimension(units, specs)
    cases = []
    for dim, ss in sorted(groups.items()):
        if len(ss) < 2:
            continue
        for a in ss:
            for b in ss:
                if a != b:
                    cases.append(["pool", a, b])
    # prefixed shapes: a prefix on the source, on the target, or on both
    pre_units = ["Meter", "Foot", "Second", "Liter", "Acre", "Newton", "Joule", "Hertz"] if thorough else ["Meter", "Foot", "Liter", "Acre", "Joule"]
    pre_idx = [i for i, p in enumerate(POOL) if p[1] in pre_units]
    prefixes = ["kilo", "milli", "mebi", "micro"] if thorough else ["kilo", "milli"]
    for i in pre_idx:
        for j in pre_idx:
            ui, uj = units[i], units[j]
            for e in (1, 2, 3, -1, -2):
                for f in (1, 2, 3, -1, -2):
                    if (ui**e).dimension is not (uj**f).dimension:
                        continue
                    for p in prefixes:
                        cases.append(["pre", i, e, p, j, f, None])
                        cases.append(["pre", i, e, None, j, f, p])
                        cases.append(["pre", i, e, p, j, f, "kilo"])
    # compound shapes over the synthetic system (isolated and partially connected units
    # inside products and quotients with ordinary units)
    comp_atoms = ["X1", "X3", "X4", "ZA", "PA", "SV", "SW", "FQ", "Meter", "Second",
                  "FN", "FS", "SZ", "Gram", "DT", "DQ", "DL", "Radian", "Degree", "One"]
    if not thorough:
        comp_atoms = [a for a in comp_atoms if a not in ("X3", "SW", "FQ", "DL", "Radian", "SV")]
    syn_set = set(comp_atoms) - {"Meter", "Second", "Gram", "One"}
    shapes = []
    exps1 = (1, -1, 2)
    for a in comp_atoms:
        for e in exps1:
            shapes.append(((a, e),))
    import itertools as _it

    for a, b in _it.combinations(comp_atoms, 2):
        for e in ((1, 1), (1, -1), (-1, 1), (-1, -1)) + (((2, -1),) if thorough else ()):
            shapes.append(((a, e[0]), (b, e[1])))
    tri_atoms = (["X1", "X4", "ZA", "PA", "SV", "Second", "FN", "FS", "SZ", "DT", "DQ"] if thorough
                 else ["X4", "PA", "FN", "FS", "SZ", "DT"])
    for a, b, c in _it.combinations(tri_atoms, 3):
        for e in _it.product((1, -1), repeat=3):
            shapes.append(((a, e[0]), (b, e[1]), (c, e[2])))
    vec = {"X1": (1, 0, 0), "X3": (1, 0, 0), "X4": (1, 0, 0), "ZA": (2, 0, 0), "PA": (2, 0, 0), "SV": (1, -1, 0), "SW": (1, -1, 0),
           "FQ": (0, -1, 0), "Meter": (1, 0, 0), "Second": (0, 1, 0), "FN": (1, -2, 1), "FS": (1, -2, 1), "SZ": (1, -1, 0),
           "Gram": (0, 0, 1), "DT": (0, 0, 0), "DQ": (0, 0, 0), "DL": (0, 0, 0), "Radian": (0, 0, 0), "Degree": (0, 0, 0),
           "One": (0, 0, 0)}
    by_dim = {}
    for sh in shapes:
        d = tuple(sum(vec[n][k] * e for n, e in sh) for k in range(3))
        by_dim.setdefault(d, []).append(sh)
    for d, group in sorted(by_dim.items()):
        for sa in group:
            for sb in group:
                if sa != sb and (any(n in syn_set for n, _ in sa) or any(n in syn_set for n, _ in sb)):
                    cases.append(["comp", [list(x) for x in sa], [list(x) for x in sb]])
    syn_names = ["X1", "X2", "X3", "X4", "ZA", "ZV", "ZW", "C0", "C20", "C40"]
    extra = ["Meter", "Second", "Watt", "Liter", "Acre"]
    atoms = [(n, e) for n in syn_names + extra for e in (1, -1, 2)]
    for a in atoms:
        for b in atoms:
            if a != b and (a[0] in syn_names or b[0] in syn_names):
                cases.append(["syn", a[0], a[1], b[0], b[1]])
    return cases


def _site(tb):
    frames = traceback.extract_tb(tb)
    for fr in reversed(frames):
        if "/measured/" in fr.filename and "_parser" not in fr.filename:
            return f"{fr.filename.rsplit('/', 1)[-1]}:{fr.name}"
    return "?"


def _outcome(fn):
    try:
        v = fn()
    except BaseException as e:  # noqa
        return f"E:{type(e).__name__}@{_site(e.__traceback__)}"
    return "v:" + v


_SYN = None
_UNITS = None


def _resolve(case):
    global _SYN, _UNITS
    import measured
    from ..world import get_world

    w = get_world()
    if _SYN is None:
        w.restore()
        _SYN = synthetic(measured)
        w.base = w.snapshot()
        _UNITS = pool_units()
    if case[0] == "pool":
        a = build(_UNITS, [tuple(x) for x in case[1]])
        b = build(_UNITS, [tuple(x) for x in case[2]])
    elif case[0] == "shapes-begin":
        return w, measured.One, measured.One
    elif case[0] == "pre":
        _, i, e, p, j, f, q = case
        P = measured.Prefix._by_name
        a = _UNITS[i] ** e
        b = _UNITS[j] ** f
        if p:
            a = P[p] * a
        if q:
            b = P[q] * b
    elif case[0] == "comp":
        import measured.si as si

        def shape(spec):
            u = None
            for n, e in spec:
                f = (_SYN[n] if n in _SYN else (measured.One if n == "One" else getattr(si, n))) ** e
                u = f if u is None else u * f
            return u

        a, b = shape(case[1]), shape(case[2])
    else:
        import measured.si as si
        import measured.us as us

        def get(n):
            return _SYN[n] if n in _SYN else getattr(si, n, None) or getattr(us, n)

        a = get(case[1]) ** case[2]
        b = get(case[3]) ** case[4]
    return w, a, b


def run_case(case):
    w, a, b = _resolve(case)
    if a.dimension is not b.dimension or a is b:
        return None
    row = []
    for op in OPS:
        w.restore()
        qa, qb = 3 * a, 2 * b
        if op == "in_unit":
            row.append(_outcome(lambda: repr(qa.in_unit(b).magnitude)))
        elif op == "add":
            row.append(_outcome(lambda: repr((qa + qb).magnitude)))
        elif op == "sub":
            row.append(_outcome(lambda: repr((qa - qb).magnitude)))
        elif op == "eq":
            row.append(_outcome(lambda: repr(qa == qb)))
        elif op == "lt":
            row.append(_outcome(lambda: repr(qa < qb)))
        else:
            row.append(_outcome(lambda: repr([x.magnitude for x in sorted([qa, qb])])))
    return row


def _table_chunk(cases):
    return [run_case(c) for c in cases]


def table(thorough):
    cases = case_list(thorough)
    rows = [r for part in pmap(_table_chunk, chunked(cases, 64)) for r in part]
    return rows


_CODE = r"""
import sys, json
import mc
from mc.checks import c07
print(json.dumps({"optimize": sys.flags.optimize, "rows": c07.table(%r)}))
"""


def case_name(case):
    if case[0] == "pool":
        return f"{spec_name(POOL, case[1])} -> {spec_name(POOL, case[2])}"
    if case[0] == "pre":
        _, i, e, p, j, f, q = case
        return f"{p or ''}({POOL[i][1]}^{e}) -> {q or ''}({POOL[j][1]}^{f})"
    if case[0] == "comp":
        return "*".join(f"{n}^{e}" for n, e in case[1]) + " -> " + "*".join(f"{n}^{e}" for n, e in case[2])
    if case[0] == "shapes-begin":
        return "-"
    return f"{case[1]}^{case[2]} -> {case[3]}^{case[4]}"


# which island of the synthetic definition graph an atom belongs to, and with what degree
# (ZA = X1^2, SZ = 7 X1/s, FS = 11 g X1/s^2 hang off the X island; nothing links an island to
# another or to the SI units).  Two shapes whose island degrees differ cannot be converted
# into each other by any chain of declared equivalences.
ISLAND = {
    "X1": {"X": 1}, "X3": {"X": 1}, "ZA": {"X": 2}, "SZ": {"X": 1}, "FS": {"X": 1}, "X4": {"X4": 1}, "PA": {"PA": 1},
    "FN": {"FN": 1}, "FQ": {"FQ": 1}, "DL": {"DL": 1}, "SV": {"S": 1}, "SW": {"S": 1}, "DT": {"D": 1}, "DQ": {"D": 1},
}
MUST_FAIL = {"in_unit": "E:ConversionNotFound", "add": "E:ConversionNotFound", "sub": "E:ConversionNotFound",
             "eq": "v:False", "lt": "E:TypeError", "sorted": "E:TypeError"}


def island_degrees(shape):
    d = {}
    for n, e in shape:
        for k, w_ in ISLAND.get(n, {}).items():
            d[k] = d.get(k, 0) + w_ * e
    return {k: v for k, v in d.items() if v}


DIMENSIONLESS_ISLANDS = {"D", "DL"}


def impossible_class(case):
    """Input-side class of an impossible pair (for keying findings)."""
    da, db = island_degrees(case[1]), island_degrees(case[2])
    diff = {k for k in set(da) | set(db) if da.get(k, 0) != db.get(k, 0)}
    only_one = any([tuple(x) for x in sh] == [("One", 1)] for sh in (case[1], case[2]))
    if diff <= DIMENSIONLESS_ISLANDS and not only_one:
        return "a dimensionless unit beside other factors (or another power of itself) differs"
    if diff <= DIMENSIONLESS_ISLANDS:
        return "a dimensionless unit against One"
    return "across unconnected definitions"


def judge(rep, cases, rows, rows_O):
    n_eval = 0
    nontrivial = set()
    outcomes = {}
    for case, row, rowO in zip(cases, rows, rows_O):
        if row is None:
            continue
        impossible = case[0] == "comp" and island_degrees(case[1]) != island_degrees(case[2])
        for op, oc, ocO in zip(OPS, row, rowO):
            n_eval += 1
            if impossible and oc.split("@")[0] != MUST_FAIL[op]:
                outcomes["impossible pair: not refused"] = outcomes.get("impossible pair: not refused", 0) + 1
                if not oc.startswith("E:"):
                    rep.violation(
                        "impossible_conversion_not_refused",
                        f"{op}: {impossible_class(case)}",
                        f"{op} on 3 {case_name(case).replace(' -> ', ' and 2 ')} gave {oc}: no chain of declared equivalences links the two "
                        f"(island degrees {island_degrees(case[1])} vs {island_degrees(case[2])}); it must fail with {MUST_FAIL[op]}",
                        {"case": case, "op": op},
                    )
            cls = oc.split("@")[0] if oc.startswith("E:") else "value"
            outcomes[f"{op}:{cls}"] = outcomes.get(f"{op}:{cls}", 0) + 1
            nontrivial.add((case_name(case), op))
            if oc.startswith("E:"):
                exc, site = oc[2:].split("@")
                if exc not in ALLOWED[op]:
                    rep.violation(
                        f"escaped_{exc}",
                        f"{exc}@{site} via {op}",
                        f"{op} on 3 {case_name(case).replace(' -> ', ' and 2 ')} raised {exc} from {site} "
                        "(only ConversionNotFound / == False / ordering TypeError are allowed)",
                        {"case": case, "op": op},
                    )
            if oc != ocO:
                rep.violation(
                    "differs_under_O",
                    f"{op}: {(oc.split('@')[1] if '@' in oc else 'value')} vs -O {(ocO.split('@')[1] if '@' in ocO else 'value')}",
                    f"{op} on {case_name(case)}: python gives {oc}, python -O gives {ocO}",
                    {"case": case, "op": op},
                )
    return n_eval, len(nontrivial), outcomes


def run(rep, tier):
    thorough = tier == "thorough"
    cases = case_list(thorough)
    code = _CODE % (thorough,)
    t1 = run_py(code)
    t2 = run_py(code)
    tO = run_py(code, opt=True)
    if t1["optimize"] != 0 or tO["optimize"] < 1:
        raise HarnessError("interpreter flags not as requested")
    if t1["rows"] != t2["rows"]:
        diff = [i for i, (a, b) in enumerate(zip(t1["rows"], t2["rows"])) if a != b][:3]
        raise HarnessError(f"two plain runs differ at cases {[cases[i] for i in diff]}: not deterministic")
    if not (len(cases) == len(t1["rows"]) == len(tO["rows"])):
        raise HarnessError("case list and tables have different lengths")
    n_eval, n_nt, outcomes = judge(rep, cases, t1["rows"], tO["rows"])
    skipped = sum(1 for r in t1["rows"] if r is None)
    rep.cov.update(
        {
            "evaluations": n_eval * 2,
            "distinct_nontrivial": n_nt,
            "rule": "every ordered pair (a,b), a is not b, of equal-dimension shapes u^e and u^i*v^j over a "
            f"{len(POOL)}-unit pool from all modules plus a synthetic partially connected system "
            "(isolated unit, product-defined area/volume/power, 40-hop chain); each pair through in_unit, +, -, ==, <, sorted; "
            "a case is counted once per (pair, operator); all are non-trivial (the planner is entered: a is not b)",
            "pairs": len(cases) - skipped,
            "distinct_outcomes": dict(sorted(outcomes.items())),
            "interpreters": ["python (twice, tables identical)", "python -O"],
            "samples": [case_name(c) for c in rotate(cases)[:5]],
            "exhaustive": True,
        }
    )
    rep.assumptions.append("recursion-limit exhaustion (~900-hop chains) is outside the bound; 40-hop chain included")


def replay(obj, kind=None):
    case, op = obj["case"], obj["op"]
    code = (
        "import sys, json\nimport mc\nfrom mc.checks import c07\n"
        f"print(json.dumps(c07.run_case({case!r})))"
    )
    row = run_py(code)
    rowO = run_py(code, opt=True)
    i = OPS.index(op)
    oc, ocO = row[i], rowO[i]
    bad = oc != ocO
    if oc.startswith("E:") and oc[2:].split("@")[0] not in ALLOWED[op]:
        bad = True
    if case[0] == "comp" and island_degrees(case[1]) != island_degrees(case[2]) and not oc.startswith("E:") and oc != MUST_FAIL[op]:
        bad = True
    return bad, f"{op} on {case_name(case)}: python -> {oc}; python -O -> {ocO}"

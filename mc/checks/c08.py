"""C08 — conversion results depend only on declared equivalences, not on query history.

HistoryExplorer over all interleavings of declarations (each at most once) and queries
(any number of times) on a synthetic unit system; every query transition is compared with
the same query after the same declarations in a state with no query history.
"""
import json

from ..common import HarnessError, digest, pmap, run_py
from ..explore import HistoryExplorer, Model
from ..world import get_world

DECLS = ["X1=2*X2", "X2=4*X3", "X3=8*m", "X1=8*X3", "X4=2*X1", "Z=X1^2", "scale S@16*X3"]
QUERIES = [
    "X1->X3",
    "X3->X1",
    "X1->m",
    "m->X4",
    "X1^2->X3^2",
    "X1/s->X3/s",
    "Z->X3^2",
    "X1==8*X3",
    "X1<9*X3",
    "X1+X3",
    "sorted",
    "S->X3",
    "X2->S",
    # reverse directions (a memo keyed by an unordered pair would confuse them), and a
    # statically declared system in which the planner is asymmetric: PO -> VA can be
    # planned, VA -> PO cannot (W2 = 4 W1, CU = W1^3, PO = 2 CU, VA = 2 W2^3)
    "m->X1",
    "X3^2->Z",
    "PO->VA",
    "VA->PO",
    "VA==PO",
    # the same conversion asked with an equal magnitude of another numeric type (1, 1.0 and
    # Decimal(1) are equal and hash alike: a memo keyed by the quantity would confuse them)
    "X1->X3 float",
    "X1->X3 Decimal",
    "hub->z1",
    "xc->z1",
    "z1->xc",
    "W1->W3 Decimal",
]
QUICK_QUERIES = QUERIES
# the property is about memoisation against declarations; the synthetic system carries it,
# so only the SI module is loaded: failing path searches (the common case here) walk the
# whole definition graph and are ~6x cheaper than with all seventeen modules
MODULES = ("measured.si",)
CORE_QUERIES = ["X1->m", "m->X1", "X1->X3", "X1==8*X3", "X1->X3 Decimal", "W1->W3 Decimal"]


class Ctx:
    pass


_PREPARED = False


def prepare(w):
    """Define the synthetic units (no equivalences) once and make that the baseline."""
    global _PREPARED
    if _PREPARED:
        return
    from measured import Area, Length

    w.restore()
    for i in range(1, 5):
        Length.unit(f"verif x{i}", f"vx{i}")
    Area.unit("verif z", "vz")
    from measured import Volume

    w1 = Length.unit("verif w1", "vw1")
    w2 = Length.unit("verif w2", "vw2")
    cu = Volume.unit("verif cu", "vcu")
    po = Volume.unit("verif po", "vpo")
    va = Volume.unit("verif va", "vva")
    w2.equals(4 * w1)
    cu.equals(1 * w1**3)
    po.equals(2 * cu)
    va.equals(2 * w2**3)
    # a statically declared CYCLE whose two routes disagree on purpose (xc -> hub -> z1 gives
    # 0.21, xc -> p1 -> z1 gives 0.215): which route a query takes may depend on the
    # declarations, never on what was asked before.  And a ratio of 21, so that a Decimal
    # conversion is inexact and shows the decimal context it was computed in.
    hub = Length.unit("verif hub", "vhub")
    xc = Length.unit("verif xc", "vxc")
    p1 = Length.unit("verif p1", "vp1")
    z1 = Length.unit("verif z1", "vz1")
    xc.equals(0.3 * hub)
    hub.equals(0.7 * z1)
    xc.equals(0.5 * p1)
    p1.equals(0.43 * z1)
    w3 = Length.unit("verif w3", "vw3")
    w3.equals(21 * w1)
    w.clear_caches()
    w.base = w.snapshot()
    _PREPARED = True


class C08Model(Model):
    def __init__(self, queries=QUERIES, decls=DECLS):
        self.queries = list(queries)
        self.decls = list(decls)
        self._ref = {}

    def init(self, w):
        prepare(w)
        c = Ctx()
        c.w = w
        U = w.m.Unit._by_name
        c.X = {i: U[f"verif x{i}"] for i in range(1, 5)}
        c.Z = U["verif z"]
        c.PO, c.VA = U["verif po"], U["verif va"]
        c.S = None
        from measured.si import Meter, Second

        c.m, c.s = Meter, Second
        c.decls = []  # indices, in order
        c.qpos = set()  # (query index, number of declarations made before it ran)
        return c

    def events(self, c):
        evs = [["d", i] for i in range(len(self.decls)) if i not in c.decls]
        evs += [["q", j] for j in range(len(self.queries))]
        return evs

    def final_events(self, c):
        return [["q", j] for j in range(len(self.queries))]

    def _declare(self, c, i):
        X, Z, m = c.X, c.Z, c.m
        name = self.decls[i]
        if name == "X1=2*X2":
            X[1].equals(2 * X[2])
        elif name == "X2=4*X3":
            X[2].equals(4 * X[3])
        elif name == "X3=8*m":
            X[3].equals(8 * m)
        elif name == "X1=8*X3":
            X[1].equals(8 * X[3])
        elif name == "X4=2*X1":
            X[4].equals(2 * X[1])
        elif name == "Z=X1^2":
            Z.equals(1 * X[1] ** 2)
        elif name == "scale S@16*X3":
            c.S = c.w.m.Length.scale(16 * X[3], "verif scale", "vsc")
        else:
            raise HarnessError(name)

    def _query(self, c, j):
        X, Z, m, s = c.X, c.Z, c.m, c.s
        name = self.queries[j]
        try:
            if name == "X1->X3":
                v = (1 * X[1]).in_unit(X[3]).magnitude
            elif name == "X3->X1":
                v = (1 * X[3]).in_unit(X[1]).magnitude
            elif name == "X1->m":
                v = (1 * X[1]).in_unit(m).magnitude
            elif name == "m->X4":
                v = (1 * m).in_unit(X[4]).magnitude
            elif name == "X1^2->X3^2":
                v = (1 * X[1] ** 2).in_unit(X[3] ** 2).magnitude
            elif name == "X1/s->X3/s":
                v = (1 * X[1] / s).in_unit(X[3] / s).magnitude
            elif name == "Z->X3^2":
                v = (1 * Z).in_unit(X[3] ** 2).magnitude
            elif name == "X1==8*X3":
                v = (1 * X[1]) == (8 * X[3])
            elif name == "X1<9*X3":
                v = (1 * X[1]) < (9 * X[3])
            elif name == "X1+X3":
                v = ((1 * X[1]) + (1 * X[3])).magnitude
            elif name == "sorted":
                v = [q.magnitude for q in sorted([1 * X[1], 3 * X[3], 1 * X[2]])]
            elif name == "X1->X3 float":
                v = (1.0 * X[1]).in_unit(X[3]).magnitude
            elif name == "X1->X3 Decimal":
                from decimal import Decimal

                v = (Decimal(1) * X[1]).in_unit(X[3]).magnitude
            elif name in ("hub->z1", "xc->z1", "z1->xc"):
                a_, b_ = name.split("->")
                U_ = c.w.m.Unit._by_name
                v = (60 * U_["verif " + a_]).in_unit(U_["verif " + b_]).magnitude
            elif name == "W1->W3 Decimal":
                from decimal import Decimal

                U_ = c.w.m.Unit._by_name
                v = (Decimal(1) * U_["verif w1"]).in_unit(U_["verif w3"]).magnitude
            elif name == "m->X1":
                v = (1 * m).in_unit(X[1]).magnitude
            elif name == "X3^2->Z":
                v = (1 * X[3] ** 2).in_unit(Z).magnitude
            elif name == "PO->VA":
                v = (1 * c.PO).in_unit(c.VA).magnitude
            elif name == "VA->PO":
                v = (1 * c.VA).in_unit(c.PO).magnitude
            elif name == "VA==PO":
                v = (64 * c.VA) == (1 * c.PO), (1 * c.PO) == (64 * c.VA)
            elif name == "S->X3":
                if c.S is None:
                    return ["undefined"]
                v = (1 * c.S).in_unit(X[3]).magnitude
            elif name == "X2->S":
                if c.S is None:
                    return ["undefined"]
                v = (1 * X[2]).in_unit(c.S).magnitude
            else:
                raise HarnessError(name)
        except HarnessError:
            raise
        except BaseException as e:  # noqa
            return ["exc", type(e).__name__]
        return ["value", repr(v)]

    def apply(self, c, ev):
        if ev[0] == "d":
            self._declare(c, ev[1])
            c.decls.append(ev[1])
            c.last = None
            return ("declared",)
        out = self._query(c, ev[1])
        c.qpos.add((ev[1], len(c.decls)))
        c.last = (ev[1], out)
        return (out[0],)

    def reference(self, w, decls, j):
        """The same query after the same declarations, with no query history."""
        key = (tuple(decls), j)
        if key not in self._ref:
            w.restore()
            c = self.init(w)
            for i in decls:
                self._declare(c, i)
                c.decls.append(i)
            self._ref[key] = self._query(c, j)
        return self._ref[key]

    def invariant(self, c, hist, ev, obs):
        if ev[0] != "q":
            return []
        j, got = c.last
        decls = list(c.decls)
        want = self.reference(c.w, decls, j)
        if got != want:
            prior = [h for h in hist if h[0] == "q"]
            return [
                (
                    "history_dependent_result",
                    f"query {self.queries[j]} after {len(prior)} earlier quer{'y' if len(prior)==1 else 'ies'}",
                    f"history {self.describe(hist + [ev])}: query {self.queries[j]} gives {got}; the same "
                    f"declarations {[self.decls[i] for i in decls]} with no earlier queries give {want}",
                )
            ]
        return []

    def describe(self, hist):
        return [self.decls[e[1]] if e[0] == "d" else "?" + self.queries[e[1]] for e in hist]

    def canon(self, c):
        return [list(c.decls), sorted(c.qpos)]


_FRESH = r"""
import sys, json
import mc
from mc.world import get_world
from mc.checks import c08
w = get_world(c08.MODULES)
model = c08.C08Model()
hist = json.load(sys.stdin)
c = model.init(w)     # defines the synthetic units; no restore happens after this point
out = []
for ev in hist:
    model.apply(c, ev)
    out.append(c.last[1] if c.last else None)
print(json.dumps(out))
"""


def _fresh(hist):
    return run_py(_FRESH, hist)


def validate_fresh(w, model, hists):
    outs = pmap(_fresh, hists)
    for h, fresh in zip(hists, outs):
        w.restore()
        c = model.init(w)
        mine = []
        for ev in h:
            model.apply(c, ev)
            mine.append(c.last[1] if c.last else None)
        if mine != fresh:
            raise HarnessError(f"history {h}: in-process {mine} != fresh interpreter {fresh}")
    w.restore()
    return len(hists)


def run(rep, tier):
    w = get_world(MODULES)
    thorough = tier == "thorough"
    model = C08Model()
    prepare(w)
    # the probe level (final_events) adds one observing query to every state of the deepest
    # level, so depth d finds every violation that needs d events and then a query
    depth = 4 if thorough else 3
    ex = HistoryExplorer(w, model, max_depth=depth, time_cap=2400 if thorough else 200).run()
    rep.extend(ex.violations)
    # second exploration, deeper, over the core of the menu: the chain X1 - X2 - X3 - m with
    # its redundant shortcut, declared in any order with end-to-end queries in between
    # (a stale "no path" between two units that a LATER declaration bridges indirectly
    # needs two declarations, a query, the bridging declaration and a query again)
    core = C08Model(queries=CORE_QUERIES, decls=DECLS[:4])
    core.tag = "core"
    cdepth = 6 if thorough else 5
    ex2 = HistoryExplorer(w, core, max_depth=cdepth, time_cap=2400 if thorough else 200).run()
    rep.extend(ex2.violations)
    # declarations-then-query histories (the reference runs) + sampled deepest histories,
    # each in its own brand-new interpreter, where no restore ever happens
    hists = []
    nd = len(model.decls)
    for i in range(nd):
        for j in range(len(model.queries)):
            hists.append([["d", i], ["q", j]])
            hists.append([["q", j], ["d", i], ["q", j]])
    hists = hists[:: (1 if thorough else 4)]
    last = ex.last_level
    if last:
        stride = max(1, len(last) // (150 if thorough else 30))
        hists += last[::stride][: (150 if thorough else 30)]
    nvalid = validate_fresh(w, model, hists)
    cov = ex.coverage()
    cov2 = ex2.coverage()
    rep.cov.update(cov)
    rep.cov["states"] = cov["states"] + cov2["states"]
    rep.cov["transitions"] = cov["transitions"] + cov2["transitions"]
    rep.cov["core_exploration"] = {"declarations": core.decls, "queries": core.queries, **cov2}
    if ex2.capped:
        rep.cov["capped"] = f"core: {ex2.capped}"
    rep.cov.update(
        {
            "traces_validated_against_impl": nvalid,
            "exhaustive": ex.capped is None and ex2.capped is None,
            "declaration_menu": model.decls,
            "query_menu": model.queries,
            "samples": [model.describe(h) for h in (ex.last_level[:4] or [[]])],
            "canon": "(declaration sequence, set of (query, number of declarations made before an execution of it)); "
            "a memoised entry is fixed when first computed, so two histories with the same set have the same caches",
        }
    )
    rep.assumptions.append(
        "reference outcomes are computed in-process after World.restore() (which clears every lru_cache); "
        "that equivalence is itself validated against brand-new interpreters on the histories counted in traces_validated_against_impl"
    )


def replay(obj, kind=None):
    w = get_world(MODULES)
    model = C08Model()
    if obj.get("model") == "core":
        model = C08Model(queries=CORE_QUERIES, decls=DECLS[:4])
    hist = obj["history"]
    c = model.init(w)
    for ev in hist:
        model.apply(c, ev)
    j, got = c.last
    want = model.reference(w, list(c.decls), j)
    return got != want, f"history {model.describe(hist)}: got {got}, fresh-state reference {want}"

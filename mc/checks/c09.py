"""C09 — shipped unit definitions are mutually consistent and connected to SI.

Explicit exploration of the definition graph built from the intercepted declarations
(all of them, including ones a later declaration overwrote):
 (i)   potential (unit sizes) by propagation from the SI anchors; residual of every edge
 (ii)  every simple cycle up to length L of the pairwise graph: product of ratios == 1
 (iii) every pair of declarations for the same unordered unit pair agrees
 (iv)  conformance: the real converter vs the potential for every named unit <-> coherent SI
"""
import importlib
from decimal import Decimal

from ..common import HarnessError
from ..models import D, SizeOracle, degree, prefix_value
from ..world import get_world

TOL = Decimal("1e-5")


def decl_text(w, d):
    if d[0] == "equate":
        _, a, b = d
        return f"{a.magnitude!r} {w.ustr(a.unit)} = {b.magnitude!r} {w.ustr(b.unit)}"
    _, scale, zero = d
    return f"scale {w.ustr(scale)} zero at {zero.magnitude!r} {w.ustr(zero.unit)}"


def unprefixed_node(w, q):
    """(node unit, multiplier) as conversions.equate stores it."""
    u = q.unit
    node = w.m.Unit(w.m.IdentityPrefix, u.factors, u.dimension)
    return node, D(q.magnitude) * prefix_value(u.prefix)


def build_graph(w):
    """node -> list of (other node, ratio other-per-node, declaration index)"""
    g = {}
    for i, d in enumerate(w.decls):
        if d[0] != "equate":
            continue
        _, a, b = d
        na, ma = unprefixed_node(w, a)
        nb, mb = unprefixed_node(w, b)
        if na is nb:
            continue
        g.setdefault(na, []).append((nb, mb / ma, i))
        g.setdefault(nb, []).append((na, ma / mb, i))
    return g


def cycles(g, maxlen):
    """Every simple cycle of length 2..maxlen (as a node sequence starting at its
    smallest node id, one orientation), with the product of ratios along it."""
    order = {n: k for k, n in enumerate(g)}
    found = 0
    worst = []
    bad = []

    def dfs(start, node, path_nodes, path_edges, prod):
        nonlocal found
        for other, ratio, idx in g[node]:
            if other is start and len(path_edges) >= 1:
                if idx in path_edges and len(path_edges) == 1:
                    continue  # the same declaration back and forth
                if len(path_nodes) == 2 and idx < path_edges[0]:
                    continue  # 2-cycles once
                if len(path_nodes) > 2 and order[path_nodes[1]] > order[node]:
                    continue  # one orientation
                found += 1
                p = prod * ratio
                dev = abs(p - 1)
                n = len(path_edges) + 1
                yield (dev, n, path_nodes, path_edges + [idx])
                continue
            if order[other] <= order[start] or other in path_nodes:
                continue
            if len(path_nodes) >= maxlen:
                continue
            yield from dfs(start, other, path_nodes + [other], path_edges + [idx], prod * ratio)

    for s in g:
        yield from dfs(s, s, [s], [], Decimal(1))


def coherent_si_spellings(w, u):
    """Candidate spellings of the coherent SI unit of u's dimension."""
    m = w.m
    si = importlib.import_module("measured.si")
    iec = importlib.import_module("measured.iec")
    fund = {
        "length": si.Meter,
        "time": si.Second,
        "mass": None,
        "temperature": si.Kelvin,
        "charge": si.Coulomb,
        "amount of substance": si.Mole,
        "luminous intensity": si.Candela,
        "information": iec.Bit,
    }
    out = []
    named = [
        si.Newton, si.Pascal, si.Joule, si.Watt, si.Hertz, si.Ampere, si.Volt, si.Farad,
        si.Ohm, si.Siemens, si.Henry, si.Weber, si.Tesla, si.Lux, si.Gray, si.Katal,
    ]
    for n in named:
        if n.dimension is u.dimension:
            out.append(n)
    for kg in (si.Kilogram, si.Kilo * si.Gram):
        prod = m.One
        ok = True
        for d, e in zip(m.Dimension.fundamental(), u.dimension.exponents):
            if e == 0 or d.name == "number":
                continue
            base = kg if d.name == "mass" else fund.get(d.name)
            if base is None:
                ok = False
                break
            prod = prod * base**e
        if ok and not any(prod is x for x in out):
            out.append(prod)
    return out


def run(rep, tier):
    w = get_world()
    thorough = tier == "thorough"
    oracle = SizeOracle(w)
    n_decl = len(w.decls)
    # ---- (i) residuals
    n_edges = 0
    worst = (Decimal(0), None)
    for i, rel, deg in oracle.residuals():
        n_edges += 1
        if rel is None:
            rep.violation(
                "unsolvable_declaration",
                f"decl:{decl_text(w, w.decls[i])}",
                "a declaration involves a unit whose size cannot be derived from the SI anchors",
                {"decl_index": i},
            )
            continue
        if rel > worst[0]:
            worst = (rel, i)
        if rel > TOL * deg:
            rep.violation(
                "inconsistent_declaration",
                f"decl:{decl_text(w, w.decls[i])}",
                f"declaration #{i} disagrees with the sizes implied by the other declarations "
                f"by {float(rel):.3e} relative (tolerance {float(TOL * deg):.1e}); "
                f"units fixed by: {[decl_text(w, w.decls[j]) for j in _why(oracle, w.decls[i]) if j is not None][:4]}",
                {"decl_index": i},
            )
    unsolved = oracle.unsolved_bases()
    for u in unsolved:
        if u.dimension is w.m.Number:
            continue
        rep.violation(
            "unit_not_connected",
            f"unit:{w.base_name(u)}",
            f"base unit {w.base_name(u)} has no chain of declarations to the SI anchors",
            {"unit": w.base_name(u)},
        )
    # ---- (ii) cycles
    g = build_graph(w)
    maxlen = 8 if thorough else 6
    n_cycles = 0
    worst_cycle = (Decimal(0), None)
    for dev, n, nodes, edges in cycles(g, maxlen):
        n_cycles += 1
        if dev > worst_cycle[0]:
            worst_cycle = (dev, [w.ustr(x) for x in nodes])
        deg = max(degree(x) for x in nodes)
        if dev > TOL * deg * n:
            key = "cycle:" + " -> ".join(sorted(w.ustr(x) for x in nodes))
            rep.violation(
                "inconsistent_cycle",
                key,
                f"product of declared ratios around {[w.ustr(x) for x in nodes]} is off by "
                f"{float(dev):.3e}; declarations {[decl_text(w, w.decls[j]) for j in edges]}",
                {"cycle_decls": edges},
            )
    # ---- (iii) duplicate pairs
    pairs = {}
    for i, d in enumerate(w.decls):
        if d[0] != "equate":
            continue
        na, ma = unprefixed_node(w, d[1])
        nb, mb = unprefixed_node(w, d[2])
        if id(na) > id(nb):
            na, nb, ma, mb = nb, na, mb, ma
        pairs.setdefault((id(na), id(nb)), []).append((i, mb / ma, na, nb))
    n_dups = 0
    for lst in pairs.values():
        if len(lst) < 2:
            continue
        n_dups += 1
        r0 = lst[0][1]
        for i, r, na, nb in lst[1:]:
            if abs(r / r0 - 1) > TOL * degree(na, nb):
                rep.violation(
                    "conflicting_redeclaration",
                    f"pair:{w.ustr(na)}|{w.ustr(nb)}",
                    f"declarations #{lst[0][0]} and #{i} give different ratios for the same pair: "
                    f"{decl_text(w, w.decls[lst[0][0]])} vs {decl_text(w, w.decls[i])} "
                    "(the later one silently overwrites the earlier)",
                    {"decl_indexes": [lst[0][0], i]},
                )
    # ---- (iv) conformance against the real converter
    named = []
    seen = set()
    for name, u in sorted(w.m.Unit._by_name.items()):
        if id(u) in seen or u.dimension is w.m.Number:
            continue
        seen.add(id(u))
        named.append(u)
    n_conv = 0
    n_named = 0
    for u in named:
        n_named += 1
        su = oracle.unit_size(u)
        targets = coherent_si_spellings(w, u)
        for direction in ("to", "from"):
            ok_any = False
            errs = []
            for t in targets:
                if t is u:
                    ok_any = True
                    continue
                st = oracle.unit_size(t)
                src, dst = (u, t) if direction == "to" else (t, u)
                w.restore()
                try:
                    q = (1 * src).in_unit(dst)
                except Exception as e:  # noqa
                    errs.append(f"{w.ustr(dst)}: {type(e).__name__}")
                    continue
                n_conv += 1
                ok_any = True
                if su is not None and st is not None and not w.conv._offsets.get(u):
                    exp = (su / st) if direction == "to" else (st / su)
                    got = D(q.magnitude)
                    if abs(got / exp - 1) > TOL * degree(src, dst):
                        rep.violation(
                            "conversion_disagrees_with_definitions",
                            f"unit:{w.base_name(u) if w.is_base(u) else u.name} {direction} SI",
                            f"1 {w.ustr(src)} -> {w.ustr(dst)} gives {q.magnitude!r}, definitions imply {float(exp)!r}",
                            {"conv": [u.name, direction]},
                        )
            if not ok_any:
                rep.violation(
                    "no_conversion_to_SI",
                    f"unit:{u.name} {direction} SI",
                    f"named unit {u.name!r} ({u.dimension}) does not convert {direction} its coherent SI unit "
                    f"(tried {errs})",
                    {"conv": [u.name, direction]},
                )
    w.restore()
    rep.cov.update(
        {
            "states": len(g) + len(oracle.size),
            "transitions": n_edges,
            "traces_validated_against_impl": n_conv,
            "exhaustive": True,
            "declarations_recorded": n_decl,
            "base_units_solved": len(oracle.size),
            "base_units_unsolved": [w.base_name(u) for u in unsolved],
            "graph_nodes": len(g),
            "simple_cycles_checked": n_cycles,
            "cycle_length_bound": maxlen,
            "redeclared_pairs": n_dups,
            "named_units_checked": n_named,
            "worst_edge_residual": [float(worst[0]), decl_text(w, w.decls[worst[1]]) if worst[1] is not None else None],
            "worst_cycle_deviation": [float(worst_cycle[0]), worst_cycle[1]],
            "samples": [decl_text(w, d) for d in w.decls[:3]]
            + [{"cycle": worst_cycle[1]}],
        }
    )
    rep.assumptions += [
        "declarations are those made through Unit.equals / Dimension.scale at import of measured.systems",
        "float literals are read as the shortest decimal that round-trips (repr)",
    ]


def _why(oracle, d):
    out = []
    if d[0] != "equate":
        return out
    for q in (d[1], d[2]):
        for f in q.unit.factors:
            out.append(oracle.why.get(f))
    return out


def replay(obj, kind=None):
    w = get_world()
    oracle = SizeOracle(w)
    if "decl_index" in obj:
        i = obj["decl_index"]
        for j, rel, deg in oracle.residuals():
            if j == i:
                bad = rel is None or rel > TOL * deg
                return bad, f"declaration #{i}: {decl_text(w, w.decls[i])}; residual {rel}"
        return False, "declaration index not present"
    if "decl_indexes" in obj:
        a, b = obj["decl_indexes"]
        return True, f"{decl_text(w, w.decls[a])} || {decl_text(w, w.decls[b])}"
    if "cycle_decls" in obj:
        return True, str([decl_text(w, w.decls[j]) for j in obj["cycle_decls"]])
    if "unit" in obj:
        u = w.m.Unit._by_name.get(obj["unit"])
        return (u is not None and u not in oracle.size), f"size of {obj['unit']}: {oracle.size.get(u)}"
    if "conv" in obj:
        name, direction = obj["conv"]
        u = w.m.Unit._by_name[name]
        outs = []
        bad = True
        su = oracle.unit_size(u)
        for t in coherent_si_spellings(w, u):
            src, dst = (u, t) if direction == "to" else (t, u)
            try:
                q = (1 * src).in_unit(dst)
                st = oracle.unit_size(t)
                exp = (su / st) if direction == "to" else (st / su)
                ok = abs(D(q.magnitude) / exp - 1) <= TOL * degree(src, dst)
                outs.append(f"{w.ustr(dst)}: {q.magnitude!r} (expected {float(exp)!r})")
                if kind == "no_conversion_to_SI":
                    bad = False
                elif not ok:
                    return True, "; ".join(outs)
            except Exception as e:  # noqa
                outs.append(f"{w.ustr(dst)}: {type(e).__name__}: {e}")
        if kind != "no_conversion_to_SI":
            bad = False
        return bad, "; ".join(outs)
    raise HarnessError("unknown replay object")

"""C10 — temperature scales convert by their exact affine definitions.

All 12 ordered pairs of {K, degC, degF, R} x prefixes on either side x a magnitude alphabet,
against the affine model evaluated in exact rational arithmetic."""
from decimal import Decimal
from fractions import Fraction

from ..common import HarnessError, chunked, pmap, rotate
from ..world import get_world

MAGS = [
    -500, -273.15, -40, 0, 0.01, 32, 100, 273.15, 1e4, 1, -1, 2.5,
    Decimal("36.6"), Decimal("-459.67"), Decimal("0"), Decimal("100"), 32.0,
]
SCALES = ["K", "C", "F", "R"]
C0 = Fraction("273.15")
F0 = Fraction("459.67")


def to_kelvin(scale, x):
    if scale == "K":
        return x
    if scale == "C":
        return x + C0
    if scale == "R":
        return x * Fraction(5, 9)
    return (x + F0) * Fraction(5, 9)


def from_kelvin(scale, k):
    if scale == "K":
        return k
    if scale == "C":
        return k - C0
    if scale == "R":
        return k * Fraction(9, 5)
    return k * Fraction(9, 5) - F0


def degree_ratio(src, dst):
    """size of one src degree in dst degrees"""
    big = {"K": Fraction(1), "C": Fraction(1), "R": Fraction(5, 9), "F": Fraction(5, 9)}
    return big[src] / big[dst]


def frac(m):
    return Fraction(m) if not isinstance(m, Decimal) else Fraction(str(m))


def units(w):
    from measured.si import Celsius, Kelvin
    from measured.us import Fahrenheit, Rankine

    return {"K": Kelvin, "C": Celsius, "F": Fahrenheit, "R": Rankine}


def prefixes(w, thorough):
    P = w.m.Prefix
    ident = w.m.IdentityPrefix
    allp = sorted(set(P._by_name.values()), key=lambda p: (p.base, p.exponent))
    if thorough:
        return [ident] + allp
    keep = {"milli", "kilo", "mebi", "deca"}
    return [ident] + [p for p in allp if p.name in keep]


def pval(p):
    return Fraction(1) if p.base == 0 else Fraction(p.base) ** int(p.exponent)


def pname(p):
    return p.name or (f"{p.base}^{p.exponent}" if p.base else "")


def tol(expected, *others):
    return Fraction(1, 10**9) * max(1, abs(expected), *[abs(o) for o in others])


def _chunk(args):
    w = get_world()
    thorough, pairs = args
    U = units(w)
    pre = prefixes(w, thorough)
    viols = []
    n = 0
    nontrivial = set()
    outcomes = {}

    def bump(k):
        outcomes[k] = outcomes.get(k, 0) + 1

    for src, dst, pi, qi in pairs:
        p, q = pre[pi], pre[qi]
        su, du = p * U[src], q * U[dst]
        pv, qv = pval(p), pval(q)
        label = f"{pname(p)}{src}->{pname(q)}{dst}"
        convs = {}
        # one restored state per (pair, prefixes): the magnitudes follow each other, equal values
        # of different numeric types included (0, Decimal("0")), so a memo that survives
        # between calls is exercised
        w.restore()
        for m in MAGS:
            n += 1
            x = frac(m) * pv  # value on the unprefixed source scale
            expected = from_kelvin(dst, to_kelvin(src, x)) / qv
            offs = [C0, F0]
            try:
                r = (m * su).in_unit(du)
            except Exception as e:  # noqa
                bump("raised")
                viols.append(
                    ("conversion_raised", f"{label}", f"({m!r} {su}).in_unit({du}) raised {type(e).__name__}: {e}",
                     {"src": src, "dst": dst, "p": pname(p), "q": pname(q), "m": repr(m), "what": "value"})
                )
                continue
            nontrivial.add((label, repr(m)))
            bump("returned")
            got = frac(r.magnitude)
            convs[repr(m)] = (got, frac(m))
            if r.unit is not du:
                viols.append(("wrong_unit", label, f"result unit {r.unit} is not {du}",
                              {"src": src, "dst": dst, "p": pname(p), "q": pname(q), "m": repr(m), "what": "value"}))
            if isinstance(m, Decimal) != isinstance(r.magnitude, Decimal):
                viols.append(("magnitude_type", label, f"{type(m).__name__} in, {type(r.magnitude).__name__} out",
                              {"src": src, "dst": dst, "p": pname(p), "q": pname(q), "m": repr(m), "what": "value"}))
            if abs(got - expected) > tol(expected, *[o / qv for o in offs]):
                kind = "wrong_value"
                viols.append(
                    (kind, label,
                     f"({m!r} {su}).in_unit({du}) = {r.magnitude!r}, affine definitions give {float(expected)!r}",
                     {"src": src, "dst": dst, "p": pname(p), "q": pname(q), "m": repr(m), "what": "value"})
                )
                continue
            # round trip
            try:
                back = r.in_unit(su)
                n += 1
                if abs(frac(back.magnitude) - frac(m)) > tol(frac(m), *[o / pv for o in offs]):
                    viols.append(
                        ("round_trip", label, f"{m!r} {su} -> {du} -> back = {back.magnitude!r}",
                         {"src": src, "dst": dst, "p": pname(p), "q": pname(q), "m": repr(m), "what": "roundtrip"})
                    )
            except Exception as e:  # noqa
                viols.append(("conversion_raised", label + " (back)", f"{type(e).__name__}: {e}",
                              {"src": src, "dst": dst, "p": pname(p), "q": pname(q), "m": repr(m), "what": "roundtrip"}))
        # differences scale by the degree ratio
        keys = list(convs)
        ratio = degree_ratio(src, dst) * pv / qv
        for a, b in zip(keys, keys[1:]):
            (ga, ma), (gb, mb) = convs[a], convs[b]
            n += 1
            exp = ratio * (ma - mb)
            if abs((ga - gb) - exp) > 2 * tol(exp, ga, gb):
                viols.append(("difference_not_scaled", label, f"conv({a})-conv({b}) = {float(ga-gb)!r}, expected {float(exp)!r}",
                              {"src": src, "dst": dst, "p": pname(p), "q": pname(q), "m": a, "what": "value"}))
        # comparisons across scales (separated temperatures)
        for ma in (-40, 0, 100, 300.5):
            for mb in (-39, 0, 1, 250):
                w.restore()
                qa, qb = ma * su, mb * du
                ka = to_kelvin(src, frac(ma) * pv)
                kb = to_kelvin(dst, frac(mb) * qv)
                if ka == kb:
                    continue
                rel = abs(ka - kb) / max(abs(ka), abs(kb), 1)
                if rel < Fraction(1, 10**6):
                    continue
                n += 1
                try:
                    eq, lt, gt = (qa == qb), (qa < qb), (qa > qb)
                except Exception as e:  # noqa
                    viols.append(("comparison_raised", label, f"{qa} vs {qb}: {type(e).__name__}: {e}",
                                  {"src": src, "dst": dst, "p": pname(p), "q": pname(q), "m": repr(ma), "mb": repr(mb), "what": "compare"}))
                    continue
                if eq or lt != (ka < kb) or gt != (ka > kb):
                    viols.append(
                        ("comparison_disagrees_with_kelvin", label,
                         f"{qa} vs {qb}: ==:{eq} <:{lt} >:{gt}; kelvin values {float(ka)!r} vs {float(kb)!r}",
                         {"src": src, "dst": dst, "p": pname(p), "q": pname(q), "m": repr(ma), "mb": repr(mb), "what": "compare"})
                    )
    w.restore()
    return n, len(nontrivial), viols, outcomes


EXACT_TIES = [("C", 0, "K", 273.15), ("F", 0, "R", 459.67), ("C", -273.15, "K", 0), ("F", -459.67, "R", 0)]


def run(rep, tier):
    w = get_world()
    thorough = tier == "thorough"
    pre = prefixes(w, thorough)
    pairs = []
    for src in SCALES:
        for dst in SCALES:
            if src == dst:
                continue
            for pi in range(len(pre)):
                for qi in range(len(pre)):
                    pairs.append((src, dst, pi, qi))
    pairs = rotate(pairs)
    res = pmap(_chunk, [(thorough, c) for c in chunked(pairs, 64)])
    n = sum(r[0] for r in res)
    nt = sum(r[1] for r in res)
    outcomes = {}
    for r in res:
        rep.extend(r[2])
        for k, v in r[3].items():
            outcomes[k] = outcomes.get(k, 0) + v
    # absolute zero and exact ties, unprefixed
    U = units(w)
    for a, ma, b, mb in EXACT_TIES:
        for x, mx, y, my in ((a, ma, b, mb), (b, mb, a, ma)):
            w.restore()
            n += 1
            qa, qb = mx * U[x], my * U[y]
            if not (qa == qb) or (qa < qb) or (qa > qb):
                rep.violation("exact_tie_not_equal", f"{mx}{x} vs {my}{y}",
                              f"{qa} == {qb} is {qa == qb}, < {qa < qb}, > {qa > qb}",
                              {"src": x, "dst": y, "p": "", "q": "", "m": repr(mx), "mb": repr(my), "what": "tie"})
    rep.cov.update(
        {
            "evaluations": n,
            "distinct_nontrivial": nt,
            "rule": "12 ordered scale pairs x prefix on source x prefix on target x magnitude alphabet "
            f"({len(MAGS)} values incl. below absolute zero, int/float/Decimal); each returned conversion is non-trivial "
            "(source scale != target scale); plus round trips, consecutive differences and cross-scale comparisons",
            "prefixes": [pname(p) or "identity" for p in pre],
            "scale_pairs": 12,
            "distinct_outcomes": outcomes,
            "samples": [f"{pname(pre[pi])}{s}->{pname(pre[qi])}{d}" for s, d, pi, qi in pairs[:6]],
            "exhaustive": True,
        }
    )
    rep.assumptions.append("tolerance 1e-9*max(1,|expected|,|offset in target units|); float constants 273.15/459.67 read as decimals")


def replay(obj, kind=None):
    w = get_world()
    U = units(w)
    P = {pname(p): p for p in prefixes(w, True)}
    P[""] = w.m.IdentityPrefix
    p, q = P[obj["p"]], P[obj["q"]]
    su, du = p * U[obj["src"]], q * U[obj["dst"]]
    m = eval(obj["m"], {"Decimal": Decimal})
    pv, qv = pval(p), pval(q)
    if obj["what"] in ("value", "roundtrip"):
        # re-run the whole magnitude sequence of the pair the way the check does
        names = [pname(x) for x in prefixes(w, True)]
        r = _chunk((True, [(obj["src"], obj["dst"], names.index(obj["p"]), names.index(obj["q"]))]))
        hits = [v for v in r[2] if v[3].get("m") == obj["m"] and (kind is None or v[0] == kind)]
        if hits:
            return True, hits[0][2]
        try:
            r = (m * su).in_unit(du)
        except Exception as e:  # noqa
            return True, f"raised {type(e).__name__}: {e}"
        expected = from_kelvin(obj["dst"], to_kelvin(obj["src"], frac(m) * pv)) / qv
        bad = abs(frac(r.magnitude) - expected) > tol(expected, C0 / qv, F0 / qv)
        obs = f"({m!r} {su}).in_unit({du}) = {r.magnitude!r}; affine model {float(expected)!r}"
        if obj["what"] == "roundtrip":
            back = r.in_unit(su)
            bad = bad or abs(frac(back.magnitude) - frac(m)) > tol(frac(m), C0 / pv, F0 / pv)
            obs += f"; back = {back.magnitude!r}"
        if kind in ("difference_not_scaled", "wrong_unit", "magnitude_type"):
            bad = True
        return bad, obs
    mb = eval(obj["mb"], {"Decimal": Decimal})
    qa, qb = m * su, mb * du
    ka = to_kelvin(obj["src"], frac(m) * pv)
    kb = to_kelvin(obj["dst"], frac(mb) * qv)
    eq, lt, gt = (qa == qb), (qa < qb), (qa > qb)
    if obj["what"] == "tie":
        return (not eq) or lt or gt, f"{qa} vs {qb}: == {eq} < {lt} > {gt}"
    return eq or lt != (ka < kb) or gt != (ka > kb), f"{qa} vs {qb}: == {eq} < {lt} > {gt}; kelvin {float(ka)} vs {float(kb)}"

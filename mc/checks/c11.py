"""C11 — a prefixed unit means exactly prefix factor x unit.

Complete product of registered prefixes (SI and IEC, the identity, two anonymous ones), their
ordered pairs, ALL named units plus a pool of compound units, exponents in [-4, 4] and a
magnitude alphabet, through the identities of the property:

  value      m*(p*u) == (m*value(p))*u, SI value = m * value(p) * size(u)
  power      (p*u)**n is p**n * u**n (same object for one base, equal scale otherwise)
  root       ((p*u)**n).root(n) is p*u
  algebra    p*q, p/q, p**n, p.root(n): exponents add / subtract / scale exactly in one base,
             numerically (1e-9) across bases; the identity prefix is neutral
  quotient   q / (p*u) divides by value(p); (p*u)/(q*v) carries p/q
  strip      unprefixed() and quantify() keep the SI value; prefix-only conversions
             (p*u -> u, p*u -> q*u) multiply by value(p)/value(q)
"""
from decimal import Decimal
from fractions import Fraction

from ..common import HarnessError, chunked, pmap, rotate
from ..convspace import mag
from ..models import dpow
from ..world import get_world
from . import c04

SAME = Decimal("1e-12")
CROSS = Decimal("1e-9")
MAGS = [1, 3, 2.5, Decimal("1.5"), -4]
EXPS = [-4, -3, -2, -1, 1, 2, 3, 4]
COMPOUNDS = [
    (("meter", 1), ("second", -1)),
    (("meter", 2),),
    (("second", -1),),
    (("newton", 1),),
    (("kilogram", 1), ("meter", -3)),
    (("bit", 1), ("second", -1)),
    (("byte", 1),),
    (("liter", 1),),
    (("joule", 1), ("kilogram", -1)),
    (("foot", 1), ("pound-force", 1)),
]


def pval(p):
    if p.base == 0:
        return Decimal(1)
    if isinstance(p.exponent, int):
        return Decimal(p.base) ** p.exponent
    return dpow(Decimal(p.base), p.exponent)


def prefix_list(w):
    P = w.m.Prefix
    named = sorted(set(P._by_name.values()), key=lambda p: (p.base, p.exponent))
    out = [("identity", w.m.IdentityPrefix)] + [(p.name, p) for p in named]
    out += [("Prefix(2,3)", P(2, 3)), ("Prefix(12,-1)", P(12, -1)), ("Prefix(10,5)", P(10, 5))]
    return out


def units_list(sp):
    out = []
    for names in sp.groups.values():
        for n in names:
            out.append((n, (None, ((n, 1),))))
    for c in COMPOUNDS:
        out.append(("*".join(f"{n}^{e}" for n, e in c), (None, c)))
    return out


def tol_for(*prefixes):
    bases = {p.base for p in prefixes if p.base}
    return SAME if len(bases) <= 1 else CROSS


def _chunk(args):
    what, items = args
    sp = c04.space()
    w = sp.w
    m_ = w.m
    out = {"n": 0, "nt": set(), "viols": [], "laws": {}}
    w.restore()
    PL = dict(prefix_list(w))  # after the restore: the anonymous prefixes are interned now

    def law(k):
        out["laws"][k] = out["laws"].get(k, 0) + 1
        out["n"] += 1

    def bad(kind, key, detail, rp):
        out["viols"].append((kind, key, detail, rp))

    def close(a, b, tol):
        a, b = Decimal(a), Decimal(b)
        return abs(a - b) <= tol * max(abs(a), abs(b))

    if what == "unit":
        UL = dict(units_list(sp))
        for idx_, (pn, un) in enumerate(items):
            p = PL[pn]
            u = sp.unit(UL[un])
            su = sp.oracle.unit_size(u)
            key = f"{pn} x {un}"
            # the items of a chunk share one restored state: the replay re-runs the chunk up to
            # and including this item
            rp = {"what": "unit", "p": pn, "u": un, "ctx": [list(x) for x in items[: idx_ + 1]]}
            vp = pval(p)
            tol = tol_for(p, u.prefix)
            try:
                pu = p * u
                out["nt"].add((pn, un))
                # neutral element / commutes with the unit
                if p.base == 0 and pu is not u:
                    bad("identity_prefix_not_neutral", key, f"IdentityPrefix * {u!r} is {pu!r}", rp)
                law("identity/commute")
                if (u * p) is not pu:
                    bad("prefix_does_not_commute", key, f"{u!r} * {p!r} is not {p!r} * {u!r}", rp)
                # the prefixed unit keeps factors and dimension, and its size is value(p)*size(u)
                law("size")
                if pu.factors != u.factors or pu.dimension is not u.dimension:
                    bad("prefix_changes_unit", key, f"{pu!r} has factors {pu.factors} / dimension {pu.dimension}", rp)
                spu = sp.oracle.unit_size(pu)
                if not close(spu, vp * su, tol):
                    bad("wrong_scale", key, f"size of {pn}*{un} is {float(spu)!r}, value(prefix) * size(unit) = {float(vp * su)!r}", rp)
                for m in MAGS:
                    q = m * pu
                    law("value")
                    want = mag(m) * vp * su
                    # m*(p*u) == (m*value(p))*u
                    other = (m * p.quantify()) * u if not isinstance(m, Decimal) else (m * Decimal(p.quantify())) * u
                    if not close(mag(q.magnitude) * spu, want, tol):
                        bad("wrong_value", key, f"{q} has SI value {float(mag(q.magnitude) * spu)!r}, expected {float(want)!r}", rp)
                    exact = all(isinstance(x.exponent, int) and x.exponent >= 0 for x in (p, u.prefix, pu.prefix))
                    # == is only demanded where no rounding can occur: integer magnitude,
                    # non-negative integer powers of one base (2.5e21 * 10**3 rounds)
                    if tol == SAME and exact and isinstance(m, int) and not (q == other):
                        bad("quantity_not_equal", key, f"{q} != {other}", rp)
                    # stripping prefixes keeps the value
                    law("strip")
                    s = q.unprefixed()
                    if s.unit.prefix.base != 0:
                        bad("unprefixed_keeps_prefix", key, f"({q}).unprefixed() = {s}", rp)
                    if not close(mag(s.magnitude) * sp.oracle.unit_size(s.unit), want, tol):
                        bad("unprefixed_changes_value", key, f"({q}).unprefixed() = {s}: SI value {float(mag(s.magnitude) * sp.oracle.unit_size(s.unit))!r}, expected {float(want)!r}", rp)
                    # prefix-only conversions
                    law("convert")
                    try:
                        c = q.in_unit(u)
                        if c.unit is not u or not close(mag(c.magnitude) * su, want, tol):
                            bad("prefix_conversion_wrong", key, f"({q}).in_unit({u}) = {c}; expected magnitude {float(mag(m) * vp)!r} x own prefix", rp)
                        back = (m * u).in_unit(pu)
                        if back.unit is not pu or not close(mag(back.magnitude) * spu, mag(m) * su, tol):
                            bad("prefix_conversion_wrong", key, f"({m} {u}).in_unit({pu}) = {back}", rp)
                    except w.conv.ConversionNotFound:
                        pass
                    # dividing by a prefixed unit divides by its factor
                    law("quotient")
                    d = (m * m_.One) / pu
                    sd = sp.oracle.unit_size(d.unit)
                    if not close(mag(d.magnitude) * sd, mag(m) / (vp * su), tol):
                        bad("quotient_wrong", key, f"({m} 1) / ({pu}) = {d}: SI value {float(mag(d.magnitude) * sd)!r}, expected {float(mag(m) / (vp * su))!r}", rp)
                # the prefix on its own, as a prefixed One, used as an operand: p*One is the
                # scalar value(p), and a ratio that cancels completely leaves exactly that
                law("prefixed one")
                pone = p * m_.One
                ratio = pu / u
                if tol == SAME and u.prefix.base in (0, p.base):
                    if ratio is not pone:
                        bad("prefixed_one_wrong", key, f"({pn}*{un})/{un} = {ratio!r} is not {pn}*One", rp)
                    if (u * pone) is not pu or (pone * u) is not pu or (ratio * u) is not pu:
                        bad("prefixed_one_wrong", key, f"{un} * ({pn}*One) = {(u * pone)!r}, ({pn}*One) * {un} = {(pone * u)!r}; expected {pu!r}", rp)
                    if p.base and (pu / pone) is not u:
                        bad("prefixed_one_wrong", key, f"({pn}*{un}) / ({pn}*One) = {(pu / pone)!r}; expected {u!r}", rp)
                for m in MAGS[:3]:
                    for name, got_q, want_si in (
                        ("q * (p*One)", (m * u) * (1 * pone), mag(m) * su * vp),
                        ("q / (p*One)", (m * u) / (1 * pone), mag(m) * su / vp),
                        ("q * unit p*One", (m * u) * pone, mag(m) * su * vp),
                        ("q / unit p*One", (m * u) / pone, mag(m) * su / vp),
                        ("(p*One) / q", (1 * pone) / (m * u), vp / (mag(m) * su)),
                        ("q / (ratio)", (m * u) / (1 * ratio), mag(m) * su / vp),
                    ):
                        law("prefixed one")
                        got_si = mag(got_q.magnitude) * sp.oracle.unit_size(got_q.unit)
                        if not close(got_si, want_si, tol):
                            bad("prefixed_one_wrong", key, f"{name} with q = {m} {un}, p = {pn}: {got_q}: SI value {float(got_si)!r}, expected {float(want_si)!r}", rp)
                qy = pu.quantify()
                law("quantify")
                if qy.unit.prefix.base != 0 or not close(mag(qy.magnitude) * sp.oracle.unit_size(qy.unit), vp * su, tol):
                    bad("quantify_wrong", key, f"({pu!r}).quantify() = {qy}", rp)
                for n in EXPS:
                    law("power")
                    a = pu**n
                    b = (p**n) * (u**n)
                    if tol == SAME:
                        if a is not b:
                            bad("power_not_distributed", key, f"({pn}*{un})**{n} = {a!r} is not {pn}**{n} * {un}**{n} = {b!r}", rp)
                    sa = sp.oracle.unit_size(a)
                    if a.factors != b.factors or not close(sa, (vp * su) ** n, tol * 4):
                        bad("power_wrong_scale", key, f"({pn}*{un})**{n} has size {float(sa)!r}, expected {float((vp * su) ** n)!r}", rp)
                    # ... and through the library: stripping the prefix of a quantity in that unit
                    law("strip power")
                    sq = (2 * a).unprefixed()
                    if sq.unit.prefix.base != 0 or not close(mag(sq.magnitude) * sp.oracle.unit_size(sq.unit), 2 * (vp * su) ** n, tol * 4):
                        bad("power_wrong_scale", key, f"(2 ({pn}*{un})**{n}).unprefixed() = {sq}; expected SI value {float(2 * (vp * su) ** n)!r}", rp)
                    law("root")
                    try:
                        r = a.root(n)
                    except Exception as e:  # noqa
                        bad("root_of_power_raises", key, f"(({pn}*{un})**{n}).root({n}) raised {type(e).__name__}: {e}", rp)
                    else:
                        if tol == SAME:
                            if r is not pu:
                                bad("root_of_power_not_identity", key, f"(({pn}*{un})**{n}).root({n}) = {r!r}", rp)
                        elif r.factors != pu.factors or not close(sp.oracle.unit_size(r), vp * su, tol):
                            bad("root_of_power_wrong_scale", key, f"(({pn}*{un})**{n}).root({n}) = {r!r}", rp)
                    # quantities: (m * p*u)**n
                    law("quantity power")
                    qn = (3 * pu) ** n
                    if not close(mag(qn.magnitude) * sp.oracle.unit_size(qn.unit), (3 * vp * su) ** n, tol * 4):
                        bad("quantity_power_wrong", key, f"(3 {pu})**{n} = {qn}", rp)
            except Exception as e:  # noqa
                import traceback

                bad("raised", key, f"{type(e).__name__}: {e} @ {traceback.format_exc().splitlines()[-3].strip()}", rp)
    else:  # prefix pairs, over a compound pool ("pair") or over every unit ("pair-all")
        UL = dict(units_list(sp))
        pool = [sp.unit((None, c)) for c in COMPOUNDS[:4]]
        if what == "pair-all":
            # thorough: every named unit and every compound under every ordered prefix pair
            pool = [sp.unit(spec) for _, spec in units_list(sp)]
        for idx_, (pn, qn_) in enumerate(items):
            p, q = PL[pn], PL[qn_]
            key = f"{pn} , {qn_}"
            rp = {"what": what, "p": pn, "q": qn_, "ctx": [list(x) for x in items[: idx_ + 1]]}
            vp, vq = pval(p), pval(q)
            tol = tol_for(p, q)
            out["nt"].add((pn, qn_))
            try:
                for name, r, want in (("p*q", p * q, vp * vq), ("p/q", p / q, vp / vq)):
                    law("algebra")
                    if not isinstance(r, m_.Prefix) or not close(pval(r), want, tol):
                        bad("prefix_algebra_wrong", key, f"{name} = {r!r} (value {float(pval(r))!r}), expected {float(want)!r}", rp)
                    if tol == SAME and p.base and q.base and isinstance(p.exponent, int) and isinstance(q.exponent, int):
                        e = p.exponent + q.exponent if name == "p*q" else p.exponent - q.exponent
                        expect = m_.Prefix(p.base, e)
                        # exponents of one base add and subtract EXACTLY: an equal float
                        # (27.0) would make quantify() 1e27 instead of 10**27
                        if r.base and (not isinstance(r.exponent, int) or r.exponent != e or r.quantify() != (Fraction(p.base) ** e if e < 0 else p.base**e)):
                            if not (e < 0 and isinstance(r.exponent, int) and r.exponent == e):
                                bad("prefix_algebra_not_exact", key, f"{name} = {r!r}: exponent {r.exponent!r} ({type(r.exponent).__name__}), quantify() = {r.quantify()!r}; expected exactly {p.base}**{e}", rp)
                        if r is not expect:
                            bad("prefix_algebra_not_exact", key, f"{name} = {r!r}, expected the object {expect!r}", rp)
                law("identity")
                if (p * m_.IdentityPrefix) is not p or (m_.IdentityPrefix * p) is not p or (p / m_.IdentityPrefix) is not p:
                    bad("identity_prefix_not_neutral", key, f"{p!r} with the identity prefix", rp)
                if (p / p) is not m_.IdentityPrefix and p.base:
                    bad("identity_prefix_not_neutral", key, f"{p!r}/{p!r} = {(p / p)!r}", rp)
                for n in EXPS:
                    law("prefix power")
                    r = p**n
                    if not close(pval(r), vp**n, SAME * 8):
                        bad("prefix_power_wrong", key, f"{pn}**{n} = {r!r}", rp)
                    if p.base and isinstance(p.exponent, int) and r is not m_.Prefix(p.base, p.exponent * n):
                        bad("prefix_power_wrong", key, f"{pn}**{n} = {r!r} is not Prefix({p.base}, {p.exponent * n})", rp)
                    rr = r.root(n)
                    if rr is not p:
                        bad("prefix_root_wrong", key, f"({pn}**{n}).root({n}) = {rr!r}", rp)
                for u in pool:
                    su = sp.oracle.unit_size(u)
                    for v in (pool[:2] if what == "pair" else [pool[0], u]):
                        sv = sp.oracle.unit_size(v)
                        law("unit product/quotient")
                        a = (p * u) * (q * v)
                        b = (p * u) / (q * v)
                        if a.factors != (u * v).factors or not close(sp.oracle.unit_size(a), vp * vq * su * sv, tol):
                            bad("prefixed_product_wrong", key, f"({pn}*{u}) * ({qn_}*{v}) = {a!r}", rp)
                        if b.factors != (u / v).factors or not close(sp.oracle.unit_size(b), vp * su / (vq * sv), tol):
                            bad("prefixed_quotient_wrong", key, f"({pn}*{u}) / ({qn_}*{v}) = {b!r}", rp)
                        if tol == SAME and u.prefix.base in (0, p.base or q.base) and v.prefix.base in (0, p.base or q.base):
                            for res_ in (a, b):
                                if res_.prefix.base and not isinstance(res_.prefix.exponent, int):
                                    bad("prefix_algebra_not_exact", key, f"({pn}*{u}) (.) ({qn_}*{v}) carries prefix {res_.prefix!r} with a non-integer exponent", rp)
                            if a is not (p * q) * (u * v) or b is not (p / q) * (u / v):
                                bad("prefixed_product_not_identical", key, f"({pn}*{u}) (.) ({qn_}*{v})", rp)
                    # stacking prefixes on one unit, and converting between them
                    law("stack/convert")
                    st = q * (p * u)
                    if st.factors != u.factors or not close(sp.oracle.unit_size(st), vp * vq * su, tol):
                        bad("stacked_prefix_wrong", key, f"{qn_}*({pn}*{u}) = {st!r}", rp)
                    for m in (3, Decimal("1.5")):
                        try:
                            c = (m * (p * u)).in_unit(q * u)
                        except w.conv.ConversionNotFound:
                            continue
                        want = mag(m) * vp / vq
                        if c.unit is not (q * u) or not close(mag(c.magnitude), want, max(tol, SAME * 8)):
                            bad("prefix_conversion_wrong", key, f"({m} {p * u}).in_unit({q * u}) = {c}; expected {float(want)!r}", rp)
                        qq = (m * (p * u)) / (2 * (q * u))
                        if not close(mag(qq.magnitude) * sp.oracle.unit_size(qq.unit), mag(m) * vp / (2 * vq), tol):
                            bad("quotient_wrong", key, f"({m} {p * u}) / (2 {q * u}) = {qq}", rp)
            except Exception as e:  # noqa
                import traceback

                bad("raised", key, f"{type(e).__name__}: {e} @ {traceback.format_exc().splitlines()[-3].strip()}", rp)
    w.restore()
    out["nt"] = len(out["nt"])
    return out


def run(rep, tier):
    thorough = tier == "thorough"
    sp = c04.space()
    w = sp.w
    PL = prefix_list(w)
    UL = units_list(sp)
    if not thorough:
        # every prefix x (every compound + 3 named units per dimension); every named unit x 6 prefixes
        keep = set()
        for names in sp.groups.values():
            keep.update(rotate(names)[:3])
        few = {"identity", "kilo", "milli", "mebi", "micro", "Prefix(12,-1)"}
        jobs = [(pn, un) for pn, _ in PL for un, spec in UL if (un in keep or spec[1] in COMPOUNDS or pn in few)]
    else:
        jobs = [(pn, un) for pn, _ in PL for un, _ in UL]
    pairs = [(a, b) for a, _ in PL for b, _ in PL]
    work = [("unit", c) for c in chunked(rotate(jobs), 64)]
    work += [("pair-all" if thorough else "pair", c) for c in chunked(rotate(pairs), 16 if thorough else 48)]
    res = pmap(_chunk, work)
    n = nt = 0
    laws = {}
    for r in res:
        rep.extend(r["viols"])
        n += r["n"]
        nt += r["nt"]
        for k, v in r["laws"].items():
            laws[k] = laws.get(k, 0) + v
    rep.cov.update(
        {
            "evaluations": n,
            "distinct_nontrivial": nt,
            "rule": "complete product prefix x unit (all named offset-free units and ten compound units) x exponent [-4,4] x magnitude alphabet, "
            "and all ordered prefix pairs x compound pool; distinct_nontrivial counts distinct (prefix, unit) and (prefix, prefix) combinations "
            "evaluated, evaluations counts identity instances",
            "prefixes": [n_ for n_, _ in PL],
            "units": len(UL),
            "prefix_unit_combinations": len(jobs),
            "prefix_pairs": len(pairs),
            "identity_instances": laws,
            "samples": [f"{a} x {b}" for a, b in jobs[:3]] + [f"{a} , {b}" for a, b in pairs[40:43]],
            "exhaustive": True,
        }
    )
    rep.assumptions += ["same-base identities are demanded as object identity / 1e-12, cross-base (SI with IEC, or units that carry a base-2 prefix such as byte) within 1e-9"]


def replay(obj, kind=None):
    ctx = [tuple(x) for x in obj.get("ctx") or []]
    if obj["what"] == "unit":
        r = _chunk(("unit", ctx or [(obj["p"], obj["u"])]))
        key = f"{obj['p']} x {obj['u']}"
    else:
        r = _chunk((obj["what"] if obj["what"] != "pair" or ctx else "pair-all", ctx or [(obj["p"], obj["q"])]))
        key = f"{obj['p']} , {obj['q']}"
    hits = [v for v in r["viols"] if (kind is None or v[0] == kind) and v[1] == key]
    return (True, hits[0][2]) if hits else (False, "identities hold")

"""C12 — comparisons are coherent: symmetric ==, physical total order, hash agrees.

Per-dimension pools of quantities whose physical values are known exactly (Fractions) and
are either exactly equal *by construction* (same unit / integer-positive SI prefix /
power-of-two units, so that both directions of the implicit conversion are exact in binary
floating point) or separated by >= 1e-6 relative.  All ordered pairs: truth tables of the six
operators in both argument orders + hash; all ordered triples: sorted().  A second pool mixes
quantities, levels, measurements and approximately() for the symmetry laws."""
import itertools
from decimal import Decimal
from fractions import Fraction

from ..common import HarnessError, chunked, pmap
from ..world import get_world

_READY = False


def prepare(w):
    global _READY
    if _READY:
        return
    w.restore()
    L, Ma = w.m.Length, w.m.Mass
    from measured.si import Gram, Meter

    y0 = L.unit("verif y0", "vy0")
    y1 = L.unit("verif y1", "vy1")
    y2 = L.unit("verif y2", "vy2")
    y0.equals(2 * Meter)
    y1.equals(2 * y0)
    y2.equals(4 * y1)
    y2.equals(16 * Meter)
    g0 = Ma.unit("verif g0", "vg0")
    g1 = Ma.unit("verif g1", "vg1")
    g0.equals(4 * Gram)
    g1.equals(8 * g0)
    w.base = w.snapshot()
    _READY = True


def pools(w):
    """dimension -> list of (label, quantity, exact SI value, tie-class or None)"""
    prepare(w)
    U = w.m.Unit._by_name
    from measured.iec import Bit, Byte, Kibi
    from measured.si import Gram, Hour, Kilo, Mega, Meter, Minute, Second
    from measured.us import Foot, Mile
    from measured.avoirdupois import Pound

    y0, y1, y2 = U["verif y0"], U["verif y1"], U["verif y2"]
    g0, g1 = U["verif g0"], U["verif g1"]
    F = Fraction
    D = Decimal
    km = Kilo * Meter
    out = {}
    out["length"] = [
        ("1000 m", 1000 * Meter, F(1000), "k"),
        ("1000.0 m", 1000.0 * Meter, F(1000), "k"),
        ("D1000 m", D(1000) * Meter, F(1000), "k"),
        ("1 km", 1 * km, F(1000), "k"),
        ("1.0 km", 1.0 * km, F(1000), "k"),
        ("D1 km", D(1) * km, F(1000), "k"),
        ("16 m", 16 * Meter, F(16), "p"),
        ("8 y0", 8 * y0, F(16), "p"),
        ("4.0 y1", 4.0 * y1, F(16), "p"),
        ("1 y2", 1 * y2, F(16), "p"),
        ("0 m", 0 * Meter, F(0), "z"),
        ("0.0 ft", 0.0 * Foot, F(0), "z"),
        ("D0 km", D(0) * km, F(0), "z"),
        ("3 ft", 3 * Foot, F("0.9144"), None),
        ("1 mi", 1 * Mile, F("1609.344"), None),
        ("2.5 km", 2.5 * km, F(2500), None),
        ("999 m", 999 * Meter, F(999), None),
        ("-1 m", -1 * Meter, F(-1), None),
        ("-5 ft", -5 * Foot, F("-1.524"), None),
        ("D1.5 y1", D("1.5") * y1, F(6), None),
    ]
    kg = Kilo * Gram
    out["mass"] = [
        ("1000 g", 1000 * Gram, F(1000), "k"),
        ("1 kg", 1 * kg, F(1000), "k"),
        ("1.0 kg", 1.0 * kg, F(1000), "k"),
        ("D1000 g", D(1000) * Gram, F(1000), "k"),
        ("32 g", 32 * Gram, F(32), "p"),
        ("8 g0", 8 * g0, F(32), "p"),
        ("1.0 g1", 1.0 * g1, F(32), "p"),
        ("1 lb", 1 * Pound, F("453.59237"), None),
        ("2 lb", 2 * Pound, F("907.18474"), None),
        ("0.5 kg", 0.5 * kg, F(500), None),
        ("D31 g", D(31) * Gram, F(31), None),
        ("-3 g0", -3 * g0, F(-12), None),
    ]
    ks = Kilo * Second
    out["time"] = [
        ("1000 s", 1000 * Second, F(1000), "k"),
        ("1 ks", 1 * ks, F(1000), "k"),
        ("D1 ks", D(1) * ks, F(1000), "k"),
        ("1000.0 s", 1000.0 * Second, F(1000), "k"),
        ("1 min", 1 * Minute, F(60), None),
        ("59 s", 59 * Second, F(59), None),
        ("61.0 s", 61.0 * Second, F(61), None),
        ("1 h", 1 * Hour, F(3600), None),
        ("0.5 h", 0.5 * Hour, F(1800), None),
        ("D2 min", D(2) * Minute, F(120), None),
        ("1 Ms", 1 * (Mega * Second), F(10**6), None),
    ]
    KiB = Kibi * Byte
    out["information"] = [
        ("8192 bit", 8192 * Bit, F(8192), "p"),
        ("1024 B", 1024 * Byte, F(8192), "p"),
        ("1 KiB", 1 * KiB, F(8192), "p"),
        ("1.0 KiB", 1.0 * KiB, F(8192), "p"),
        ("D8192 bit", D(8192) * Bit, F(8192), "p"),
        ("8 Kibit", 8 * (Kibi * Bit), F(8192), "p"),
        ("1 kB", 1 * (Kilo * Byte), F(8000), None),
        ("1000 B", 1000 * Byte, F(8000), "d"),
        ("8000.0 bit", 8000.0 * Bit, F(8000), "d"),
        ("1 B", 1 * Byte, F(8), None),
        ("7 bit", 7 * Bit, F(7), None),
        ("2 KiB", 2 * KiB, F(16384), None),
    ]
    # areas and volumes written as powers of length units that are several declared hops apart
    # (mile -> foot -> inch ...): the implicit conversion takes a different path in each
    # direction, so an exponent mishandled along a multi-hop path shows as an incoherent order
    from measured.si import Hectare, Liter
    from measured.us import Acre, Gallon, Inch, Yard

    def exact(u):
        return F(str(size_oracle(w).unit_size(u)))

    def item(label, mag, u):
        return (label, mag * u, F(str(mag)) * exact(u), None)

    km2 = (Kilo * Meter) ** 2
    out["area"] = [
        ("1000000 m2", 1000000 * Meter**2, F(10**6), "k"),
        ("1 km2", 1 * km2, F(10**6), "k"),
        ("1.0 km2", 1.0 * km2, F(10**6), "k"),
        item("1 mi2", 1, Mile**2),
        item("1000000000 in2", 1000000000, Inch**2),
        item("5e9 in2", 5e9, Inch**2),
        item("3 ft2", 3, Foot**2),
        item("2000000 yd2", 2000000, Yard**2),
        item("1 acre", 1, Acre),
        item("700 acre", 700, Acre),
        item("1 ha", 1, Hectare),
        item("D2.5 mi2", D("2.5"), Mile**2),
        ("0 ft2", 0 * Foot**2, F(0), "z"),
        ("0.0 mi2", 0.0 * Mile**2, F(0), "z"),
    ]
    out["volume"] = [
        item("1 mi3", 1, Mile**3),
        item("1e14 in3", 1e14, Inch**3),
        item("3e14 in3", 3e14, Inch**3),
        item("1 yd3", 1, Yard**3),
        item("30 ft3", 30, Foot**3),
        item("1 m3", 1, Meter**3),
        item("900 L", 900, Liter),
        item("250 gal", 250, Gallon),
        item("1 gal", 1, Gallon),
        item("D4 L", D(4), Liter),
        item("1e9 km3", 1e9, (Kilo * Meter) ** 3),
    ]
    # temperatures on four scales, both signs: a negative magnitude can be the warmer one
    from measured.si import Celsius, Kelvin
    from measured.us import Fahrenheit, Rankine

    def kelvin(scale, x):
        x = F(str(x))
        return {"K": x, "C": x + F("273.15"), "F": (x + F("459.67")) * 5 / 9, "R": x * 5 / 9}[scale]

    out["temperature"] = [
        (f"{m_} {lab}", m_ * u_, kelvin(sc, m_), None)
        for lab, u_, sc, mags in (
            ("degC", Celsius, "C", (-5, -10, 25, D("-40.5"), 100.0)),
            ("degF", Fahrenheit, "F", (20, -40, -30, 98.6, D("451"))),
            ("K", Kelvin, "K", (100, 50, 266, 300.5, D("0"))),
            ("degR", Rankine, "R", (200, 491, 1.5, D("672"))),
        )
        for m_ in mags
    ]
    out["per-area"] = [
        item("1 mi-2", 1, Mile**-2),
        item("1e-9 in-2", 1e-9, Inch**-2),
        item("5e-7 yd-2", 5e-7, Yard**-2),
        item("1e-6 m-2", 1e-6, Meter**-2),
        item("1e-6 ft-2", 1e-6, Foot**-2),
        item("D3 mi-2", D(3), Mile**-2),
    ]
    return out


_SIZES = None


def size_oracle(w):
    global _SIZES
    if _SIZES is None:
        from ..models import SizeOracle

        _SIZES = SizeOracle(w)
    return _SIZES


def relation(a, b):
    """'=', '<', '>' or None (unclaimed: equal values that are not ties by construction,
    or values closer than 1e-6 relative)."""
    la, qa, va, ca = a
    lb, qb, vb, cb = b
    if va == vb:
        if ca is not None and ca == cb:
            return "="
        return None
    if abs(va - vb) < Fraction(1, 10**6) * max(abs(va), abs(vb)):
        return None
    return "<" if va < vb else ">"


def ops_table(qa, qb):
    def t(f):
        try:
            return f()
        except Exception as e:  # noqa
            return "E:" + type(e).__name__

    return {
        "==": t(lambda: qa == qb),
        "!=": t(lambda: qa != qb),
        "<": t(lambda: qa < qb),
        "<=": t(lambda: qa <= qb),
        ">": t(lambda: qa > qb),
        ">=": t(lambda: qa >= qb),
    }


EXPECT = {
    "=": {"==": True, "!=": False, "<": False, "<=": True, ">": False, ">=": True},
    "<": {"==": False, "!=": True, "<": True, "<=": True, ">": False, ">=": False},
    ">": {"==": False, "!=": True, "<": False, "<=": False, ">": True, ">=": True},
}


def unit_kind(qa, qb):
    if qa.unit is qb.unit:
        return "same unit"
    fa = {f for f in qa.unit.factors}
    fb = {f for f in qb.unit.factors}
    if fa == fb:
        return "same unit, different prefix"
    return "different units"


def check_pairs(w, dim, pool, idx_pairs):
    viols = []
    n = 0
    nontrivial = set()
    for i, j in idx_pairs:
        a, b = pool[i], pool[j]
        rel = "=" if i == j else relation(a, b)
        if rel is None:
            continue
        w.restore()
        got = ops_table(a[1], b[1])
        n += 1
        if i != j:
            nontrivial.add((dim, i, j))
        for op, want in EXPECT[rel].items():
            if got[op] != want:
                kind = "reflexivity" if i == j else ("equal_pair_" if rel == "=" else "ordered_pair_") + "wrong_" + {"==": "eq", "!=": "ne", "<": "lt", "<=": "le", ">": "gt", ">=": "ge"}[op]
                viols.append(
                    (kind, f"{dim}: {unit_kind(a[1], b[1])}",
                     f"{a[0]} {op} {b[0]} is {got[op]!r}, physical values {float(a[2])} {rel} {float(b[2])} require {want!r}",
                     {"dim": dim, "i": i, "j": j, "what": "pair"})
                )
        if rel == "=":
            try:
                ha, hb = hash(a[1]), hash(b[1])
            except Exception as e:  # noqa
                viols.append(("hash_raised", f"{dim}", f"{type(e).__name__}", {"dim": dim, "i": i, "j": j, "what": "pair"}))
                continue
            n += 1
            if got["=="] is True and ha != hb:
                viols.append(
                    ("equal_but_hash_differs", f"{unit_kind(a[1], b[1])}",
                     f"{a[0]} == {b[0]} is True but hash() differs ({ha} vs {hb})",
                     {"dim": dim, "i": i, "j": j, "what": "pair"})
                )
    return n, nontrivial, viols


def check_triples(w, dim, pool, triples):
    viols = []
    n = 0
    for tri in triples:
        items = [pool[k] for k in tri]
        if any(relation(x, y) in (None, "=") for x, y in itertools.combinations(items, 2)):
            continue
        want = [x[0] for x in sorted(items, key=lambda x: x[2])]
        for perm in itertools.permutations(items):
            w.restore()
            n += 1
            try:
                got = [lab for lab, q in sorted(((x[0], x[1]) for x in perm), key=lambda p: p[1])]
            except Exception as e:  # noqa
                got = "E:" + type(e).__name__
            if got != want:
                viols.append(
                    ("sorted_not_physical", f"{dim}",
                     f"sorted({[x[0] for x in perm]}) = {got}, physical order {want}",
                     {"dim": dim, "perm": [pool.index(x) for x in perm], "what": "sorted"})
                )
                break
    return n, viols


def _pair_chunk(args):
    w = get_world()
    dim, idx_pairs = args
    pool = pools(w)[dim]
    n, nt, v = check_pairs(w, dim, pool, idx_pairs)
    w.restore()
    return n, len(nt), v


def _triple_chunk(args):
    w = get_world()
    dim, triples = args
    pool = pools(w)[dim]
    n, v = check_triples(w, dim, pool, triples)
    w.restore()
    return n, 0, v


# ------------------------------------------------------------------ every named unit pair


def _named_chunk(pairs):
    """1 a against (size(a)/size(b)) * (1 +- 1e-3) b for every pair of named units of one
    dimension: the order must follow the sizes the declarations imply, in both argument
    orders, whichever chain of definitions the implicit conversion happens to walk."""
    from ..convspace import Space, mag

    w = get_world()
    prepare(w)
    global _SPACE
    if _SPACE is None:
        _SPACE = Space(w)
    sp = _SPACE
    viols, n, nt = [], 0, 0
    for a, b in pairs:
        w.restore()
        ua, ub = sp.by_name[a], sp.by_name[b]
        ratio = sp.oracle.unit_size(ua) / sp.oracle.unit_size(ub)
        qa = 1 * ua
        for f, rel in ((Decimal("1.001"), "<"), (Decimal("0.999"), ">")):
            qb = float(ratio * f) * ub
            n += 1
            got = ops_table(qa, qb)
            rev = ops_table(qb, qa)
            if any(isinstance(v, str) for v in got.values()):
                continue  # not convertible: ordering raises, == is False (C07)
            nt += 1
            want = EXPECT[rel]
            wrev = EXPECT[">" if rel == "<" else "<"]
            bad = [op for op in want if got[op] != want[op]] + [f"reversed {op}" for op in wrev if rev[op] != wrev[op]]
            if bad:
                viols.append((
                    "named_pair_order_disagrees_with_definitions", f"{a} vs {b}",
                    f"1 {a} vs {float(ratio * f)!r} {b} (which is {f} x as large by the declared definitions): wrong {bad}; got {got}",
                    {"what": "named", "a": a, "b": b}))
    w.restore()
    return n, nt, viols


_SPACE = None


# ------------------------------------------------------------------ mixed kinds


def mixed_pool(w):
    m = w.m
    from measured.energy import Horsepower
    from measured.si import Kilo, Milli, Watt

    M = m.Measurement
    dBW = m.Decibel[1 * Watt]
    dBm = m.Decibel[1 * Milli * Watt]
    NpW = m.Neper[1 * Watt]
    kW = Kilo * Watt
    D = Decimal
    items = [
        ("Q 100 W", 100 * Watt),
        ("Q 0.1 kW", 0.1 * kW),
        ("Q 105.0 W", 105.0 * Watt),
        ("Q 1 hp", 1 * Horsepower),
        ("Q D100 W", D(100) * Watt),
        ("Q 2 W", 2 * Watt),
        ("L 20 dBW", 20 * dBW),
        ("L 50 dBm", 50 * dBm),
        ("L 3 dBW", 3 * dBW),
        ("L 20.2 dBW", 20.2 * dBW),
        ("L 2.302585092994046 Np", 2.302585092994046 * NpW),
        ("M 100±0 W", M(100 * Watt, 0)),
        ("M 100±10 W", M(100 * Watt, 10)),
        ("M 100±1 W", M(100 * Watt, 1)),
        ("M 100±300 W", M(100 * Watt, 300)),
        ("M 104±2 W", M(104 * Watt, 2)),
        ("M 0.1±0.05 kW", M(0.1 * kW, 0.05)),
        ("M 1±0.5 hp", M(1 * Horsepower, 0.5)),
        ("M D100±D5 W", M(D(100) * Watt, D(5))),
        ("M 2±0.1 W", M(2 * Watt, 0.1)),
        ("A 100 W ~0.1", m.approximately(100 * Watt, 0.1)),
        ("A 100 W ~1e-7", m.approximately(100 * Watt)),
        ("A 20 dBW ~0.05", m.approximately(20 * dBW, 0.05)),
        ("A 0.1 kW ~0", m.approximately(0.1 * kW, 0)),
        ("A 0 W", m.approximately(0 * Watt)),
    ]
    # measurements on different temperature scales (an offset must never leak into a width)
    from measured.si import Celsius, Kelvin
    from measured.us import Fahrenheit, Rankine

    items += [
        ("Q 20 degC", 20 * Celsius),
        ("Q 293.15 K", 293.15 * Kelvin),
        ("M 20±0 degC", M(20 * Celsius, 0)),
        ("M 20±1 degC", M(20 * Celsius, 1)),
        ("M 293.15±0.5 K", M(293.15 * Kelvin, 0.5)),
        ("M 567±1 K", M(567 * Kelvin, 1)),
        ("M 300±250 K", M(300 * Kelvin, 250)),
        ("M 68±2 degF", M(68 * Fahrenheit, 2)),
        ("M 560±1 degR", M(560 * Rankine, 1)),
        ("M 100±5 degC", M(100 * Celsius, 5)),
        ("M 373±1 K", M(373 * Kelvin, 1)),
        ("A 20 degC ~0.01", m.approximately(20 * Celsius, 0.01)),
        ("A 293.15 K ~0.001", m.approximately(293.15 * Kelvin, 0.001)),
    ]
    return items


# interval model for measurements on temperature scales: (low, high) in kelvin
def kelvin_interval(label):
    import re

    mt = re.match(r"M (-?[0-9.]+)±([0-9.]+) (degC|K|degF|degR)$", label)
    if not mt:
        return None
    x, s_, sc = float(mt.group(1)), float(mt.group(2)), mt.group(3)

    def k(v):
        return {"K": v, "degC": v + 273.15, "degF": (v + 459.67) * 5 / 9, "degR": v * 5 / 9}[sc]

    return k(x - s_), k(x + s_)


def kind_of(label):
    return {"Q": "Quantity", "L": "Level", "M": "Measurement", "A": "approximately"}[label[0]]


def cmp(f):
    try:
        return f()
    except Exception as e:  # noqa
        return "E:" + type(e).__name__


def check_mixed(w):
    viols = []
    items = mixed_pool(w)
    n = 0
    for (la, a), (lb, b) in itertools.product(items, items):
        n += 1
        e1, e2 = cmp(lambda: a == b), cmp(lambda: b == a)
        if e1 != e2:
            viols.append(
                ("eq_not_symmetric", f"{kind_of(la)} == {kind_of(lb)}",
                 f"({la}) == ({lb}) is {e1!r} but ({lb}) == ({la}) is {e2!r}",
                 {"what": "mixed", "a": la, "b": lb})
            )
        n1 = cmp(lambda: a != b)
        if isinstance(e1, bool) and isinstance(n1, bool) and e1 == n1:
            viols.append(
                ("ne_inconsistent", f"{kind_of(la)} != {kind_of(lb)}",
                 f"({la}) != ({lb}) is {n1!r} while == is {e1!r}",
                 {"what": "mixed", "a": la, "b": lb})
            )
        ia, ib = kelvin_interval(la), kelvin_interval(lb)
        if ia and ib:
            gap = max(ia[0], ib[0]) - min(ia[1], ib[1])  # > 0: disjoint, < 0: overlapping
            if abs(gap) > 1e-6:
                want = gap < 0
                if e1 is not want or e2 is not want:
                    viols.append(
                        ("measurement_eq_disagrees_with_intervals", "temperature scales",
                         f"({la}) == ({lb}) is {e1!r} / reversed {e2!r}; the intervals in kelvin {ia} and {ib} "
                         f"{'overlap' if want else 'are disjoint'}",
                         {"what": "mixed", "a": la, "b": lb})
                    )
        if la is lb and e1 is not True:
            viols.append(("reflexivity", f"{kind_of(la)}", f"({la}) == itself is {e1!r}", {"what": "mixed", "a": la, "b": lb}))
        # The mirror laws (<= vs >=, < vs >) are claimed for quantities only; a Level denotes
        # a quantity, so they are checked for Quantity/Level pairs.  Measurement ordering is
        # deliberately bound-based (lower bounds for <, upper bounds for >) and C12 claims
        # only the symmetry of == for it.
        if la[0] in "QL" and lb[0] in "QL":
            le, ge = cmp(lambda: a <= b), cmp(lambda: b >= a)
            if le != ge:
                viols.append(
                    ("le_ge_not_mirrored", f"{kind_of(la)} <= {kind_of(lb)}",
                     f"({la}) <= ({lb}) is {le!r} but ({lb}) >= ({la}) is {ge!r}",
                     {"what": "mixed", "a": la, "b": lb})
                )
            lt, gt = cmp(lambda: a < b), cmp(lambda: b > a)
            if lt != gt:
                viols.append(
                    ("lt_gt_not_mirrored", f"{kind_of(la)} < {kind_of(lb)}",
                     f"({la}) < ({lb}) is {lt!r} but ({lb}) > ({la}) is {gt!r}",
                     {"what": "mixed", "a": la, "b": lb})
                )
    return n, len(items), viols


def run(rep, tier):
    w = get_world()
    thorough = tier == "thorough"
    P = pools(w)
    jobs = []
    for dim, pool in P.items():
        idx = [(i, j) for i in range(len(pool)) for j in range(len(pool))]
        for c in chunked(idx, 4):
            jobs.append((dim, c))
    res = pmap(_pair_chunk, jobs)
    tjobs = []
    for dim, pool in P.items():
        tri = list(itertools.combinations(range(len(pool)), 3))
        if not thorough:
            tri = tri[::3]
        for c in chunked(tri, 4):
            tjobs.append((dim, c))
    tres = pmap(_triple_chunk, tjobs)
    from ..convspace import Space

    sp = Space(w)
    npairs = [(a, b) for names in sp.groups.values() for i, a in enumerate(names) for b in names[i + 1:]]
    nres = pmap(_named_chunk, chunked(npairs, 64))
    n = sum(r[0] for r in res) + sum(r[0] for r in tres) + sum(r[0] for r in nres)
    nt = sum(r[1] for r in res) + sum(r[1] for r in nres)
    for r in res + tres + nres:
        rep.extend(r[2])
    w.restore()
    nm, nitems, mv = check_mixed(w)
    rep.extend(mv)
    w.restore()
    rep.cov.update(
        {
            "evaluations": n + nm,
            "distinct_nontrivial": nt + nm - nitems,
            "rule": "all ordered pairs (six operators, both argument orders, hash) and ordered triples (sorted of every "
            "permutation) within per-dimension pools of quantities with exactly known values: ties by construction "
            "(same unit / integer-positive SI prefix / power-of-two units, int-float-Decimal) or separated >= 1e-6; "
            "plus all ordered pairs of a 25-item pool mixing Quantity, Level, Measurement and approximately(); "
            "non-trivial = the two operands are different pool items",
            "pools": {d: [x[0] for x in p] for d, p in P.items()},
            "mixed_pool": [l for l, _ in mixed_pool(w)],
            "named_unit_pairs": len(npairs),
            "samples": [f"{P['length'][0][0]} vs {P['length'][3][0]}", f"{P['mass'][4][0]} vs {P['mass'][6][0]}"],
            "exhaustive": True,
        }
    )
    rep.assumptions.append("equal values that are not ties by construction (e.g. 60 min vs 1 h) are not claimed either way")


def replay(obj, kind=None):
    w = get_world()
    if obj["what"] == "mixed":
        items = dict(mixed_pool(w))
        a, b = items[obj["a"]], items[obj["b"]]
        obs = {
            "a==b": cmp(lambda: a == b), "b==a": cmp(lambda: b == a),
            "a!=b": cmp(lambda: a != b),
            "a<=b": cmp(lambda: a <= b), "b>=a": cmp(lambda: b >= a),
            "a<b": cmp(lambda: a < b), "b>a": cmp(lambda: b > a),
        }
        ql = obj["a"][0] in "QL" and obj["b"][0] in "QL"
        bad = (
            obs["a==b"] != obs["b==a"]
            or (ql and (obs["a<=b"] != obs["b>=a"] or obs["a<b"] != obs["b>a"]))
            or (obj["a"] == obj["b"] and obs["a==b"] is not True)
            or (isinstance(obs["a==b"], bool) and obs["a==b"] == obs["a!=b"])
        )
        ia, ib = kelvin_interval(obj["a"]), kelvin_interval(obj["b"])
        if ia and ib:
            gap = max(ia[0], ib[0]) - min(ia[1], ib[1])
            if abs(gap) > 1e-6 and (obs["a==b"] is not (gap < 0) or obs["b==a"] is not (gap < 0)):
                bad = True
                obs["intervals_in_kelvin"] = [ia, ib]
        return bad, f"{obj['a']} vs {obj['b']}: {obs}"
    if obj["what"] == "named":
        n, nt, v = _named_chunk([(obj["a"], obj["b"])])
        return bool(v), "; ".join(x[2] for x in v) or "order follows the declared definitions"
    pool = pools(w)[obj["dim"]]
    if obj["what"] == "pair":
        n, nt, v = check_pairs(w, obj["dim"], pool, [(obj["i"], obj["j"])])
        return bool(v), "; ".join(x[2] for x in v) or "consistent"
    n, v = check_triples(w, obj["dim"], pool, [tuple(sorted(obj["perm"]))])
    return bool(v), "; ".join(x[2] for x in v) or "consistent"

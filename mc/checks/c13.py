"""C13 — str() output parses back; alternative spellings are equivalent.

(a) every registered prefix x every named unit x exponent in {+-1,+-2,+-3} as (p*u)**e
(b) products / quotients of two such terms over a pool, both factor orders
(c) quantities over (a)/(b) subsets x magnitude alphabet
(d) the full product of alternative spellings of each unit of (b): all must parse to one object
(e) configurations: import closures of the unit modules, each in a fresh interpreter
Oracle: Unit.parse(str(u)) is u, or a unit of the same dimension and the same size by the
size oracle (the deliberate kg case); Quantity.parse(str(q)) == q; never a different value;
a ParseError/KeyError on text produced by str() is a violation.
"""
import itertools
import json
import re
from decimal import Decimal

from ..common import HarnessError, chunked, pmap, rotate, run_py
from ..models import D, SizeOracle
from ..world import World, get_world

EXPS = [1, -1, 2, -2, 3, -3]
MAGS = [0, 7, -3, 2.5, 1e-7, 1e21]
SYMBOL_RE = re.compile(r"(?:[1a-zA-ZÅₐ-ₜΑ-ω☉.°\-()])+")
TOL = Decimal("1e-9")

MODULES = [
    "acoustics", "apocrypha", "astronomical", "avoirdupois", "computing", "electronics",
    "energy", "eu", "fff", "iec", "iso", "metric", "music", "natural", "si", "troy", "us",
]

_ORACLE = None


def oracle(w):
    global _ORACLE
    if _ORACLE is None:
        _ORACLE = SizeOracle(w)
    return _ORACLE


def named_units(w):
    seen, out = set(), []
    for name, u in sorted(w.m.Unit._by_name.items()):
        if id(u) not in seen:
            seen.add(id(u))
            out.append(u)
    return out


def prefixes(w):
    P = w.m.Prefix
    return [w.m.IdentityPrefix] + sorted(set(P._by_name.values()), key=lambda p: (p.base, p.exponent))


def input_class(w, u):
    """Input-side description of a unit (a property of the unit and of the symbol table it
    is printed with, never of the parse outcome): used to key findings."""
    m = w.m
    if u.symbol:
        return "has own symbol"
    (first, exp), *rest = list(u.factors.items())
    P = u.prefix * first.prefix
    try:
        Pr = P.root(exp)
    except Exception:
        return "prefix not an exact power of the first exponent (folded into a leading number)"
    if Pr.base != 0 and Pr.exponent != 0 and not Pr.symbol:
        return "pushed-down prefix has no symbol"
    cls = "plain"
    # first-term text; does the symbol table read it as something else?
    if Pr.symbol and first.symbol:
        text = Pr.symbol + first.symbol
        if text in m.Unit._by_symbol and m.Unit._by_symbol[text] is not first:
            other = m.Unit._by_symbol[text]
            if not (other.dimension is first.dimension and _same_size(w, Pr * first, other)):
                return f"symbol collision: {Pr.name}+{first.name} spells {text!r} = {other.name}"
        else:
            for i in range(1, len(text)):
                p2 = m.Prefix._by_symbol.get(text[:i])
                u2 = m.Unit._by_symbol.get(text[i:])
                if p2 is not None and u2 is not None:
                    if not (p2 is Pr and u2 is first):
                        return f"symbol collision: {Pr.name}+{first.name} spells {text!r} = {p2.name}+{u2.name}"
                    break
    if any(f.symbol is None for f in u.factors):
        return "a factor has no symbol"
    return cls


def _same_size(w, a, b):
    o = oracle(w)
    sa, sb = o.unit_size(a), o.unit_size(b)
    if sa is None or sb is None:
        return False
    return abs(sa / sb - 1) <= TOL


def judge_unit(w, u, label):
    """Returns (outcome, violation or None)."""
    m = w.m
    from measured.parsing import ParseError

    try:
        text = str(u)
    except Exception as e:  # noqa
        return "str_raised", ("str_raised", input_class(w, u), f"str({label}) raised {type(e).__name__}: {e}")
    try:
        back = m.Unit.parse(text)
    except (ParseError, KeyError) as e:
        return "unparsable", ("str_not_parsable", input_class(w, u), f"str({label}) = {text!r} does not parse: {type(e).__name__}")
    except Exception as e:  # noqa
        return "escaped", ("parse_escaped_exception", input_class(w, u), f"Unit.parse({text!r}) raised {type(e).__name__}: {e}")
    if back is u:
        return "identical", None
    if back.dimension is u.dimension and _same_size(w, back, u):
        return "equal_scale", None
    return "different", (
        "parses_to_different_unit", input_class(w, u),
        f"str({label}) = {text!r} parses to {w.ustr(back)} ({back.dimension}), which is not {w.ustr(u)} in scale or dimension",
    )


def _a_chunk(idxs):
    w = get_world()
    units = named_units(w)
    pre = prefixes(w)
    viols, outcomes = [], {}
    n = 0
    for ui in idxs:
        w.restore()
        u = units[ui]
        for pi, p in enumerate(pre):
            for e in EXPS:
                try:
                    x = (p * u) ** e
                except Exception:  # noqa
                    continue
                n += 1
                label = f"({p.name or 'identity'}*{u.name})**{e}"
                oc, v = judge_unit(w, x, label)
                outcomes[oc] = outcomes.get(oc, 0) + 1
                if v:
                    viols.append((v[0], v[1], v[2], {"a": [u.name, p.name, e]}))
    w.restore()
    return n, viols, outcomes


POOL_B = ["meter", "second", "gram", "newton", "hertz", "foot", "liter", "byte", "pascal", "ohm", "hour", "mile"]
PREF_B = [None, "kilo", "milli", "mebi", "micro"]
EXPS_B = [1, -1, 2, -2]


def b_terms(w):
    U, P = w.m.Unit._by_name, w.m.Prefix._by_name
    out = []
    for un in POOL_B:
        for pn in PREF_B:
            for e in EXPS_B:
                out.append((un, pn, e))
    return out


def build_term(w, t):
    un, pn, e = t
    u = w.m.Unit._by_name[un]
    if pn:
        u = w.m.Prefix._by_name[pn] * u
    return u**e


def _b_chunk(pairs):
    w = get_world()
    viols, outcomes = [], {}
    n = 0
    for ta, tb in pairs:
        w.restore()
        try:
            x = build_term(w, ta) * build_term(w, tb)
        except Exception:  # noqa
            continue
        n += 1
        label = f"{ta}*{tb}"
        oc, v = judge_unit(w, x, label)
        outcomes[oc] = outcomes.get(oc, 0) + 1
        if v:
            viols.append((v[0], v[1], v[2], {"b": [list(ta), list(tb)]}))
        # (c) quantities over this unit
        from measured.parsing import ParseError

        for mag in MAGS:
            n += 1
            q = mag * x
            try:
                text = str(q)
                back = w.m.Quantity.parse(text)
            except (ParseError, KeyError) as e:
                outcomes["q_unparsable"] = outcomes.get("q_unparsable", 0) + 1
                viols.append(("quantity_str_not_parsable", input_class(w, x), f"str({mag!r} * {label}) = {str(q)!r} does not parse: {type(e).__name__}", {"b": [list(ta), list(tb)], "mag": repr(mag)}))
                continue
            except Exception as e:  # noqa
                viols.append(("parse_escaped_exception", input_class(w, x), f"Quantity round trip of {mag!r} * {label} raised {type(e).__name__}: {e}", {"b": [list(ta), list(tb)], "mag": repr(mag)}))
                continue
            ok = quantities_equal(w, back, q)
            outcomes["q_equal" if ok else "q_different"] = outcomes.get("q_equal" if ok else "q_different", 0) + 1
            if not ok:
                viols.append(("quantity_parses_to_different_value", input_class(w, x), f"str({mag!r} * {label}) = {text!r} parses to {back!r}", {"b": [list(ta), list(tb)], "mag": repr(mag)}))
    w.restore()
    return n, viols, outcomes


def quantities_equal(w, a, b):
    try:
        if a == b:
            return True
    except Exception:  # noqa
        pass
    if a.unit is b.unit or dict(a.unit.factors) == dict(b.unit.factors):
        # the same unit came back (or the same factors, the prefix folded into the magnitude):
        # str() prints a magnitude that reads back exactly and == unprefixes both sides, so the
        # library's own == must hold (a tolerance here would hide a printer that scales the
        # magnitude differently from the way equality does)
        return False
    o = oracle(w)
    sa, sb = o.unit_size(a.unit), o.unit_size(b.unit)
    if sa is None or sb is None or a.unit.dimension is not b.unit.dimension:
        return False
    va, vb = D(a.magnitude) * sa, D(b.magnitude) * sb
    if va == vb:
        return True
    return abs(va - vb) <= Decimal("1e-12") * max(abs(va), abs(vb))


# ------------------------------------------------------------------ (d) spellings

SUP = str.maketrans("-0123456789", "⁻⁰¹²³⁴⁵⁶⁷⁸⁹")


def term_spellings(w, t):
    """Spellings of one term (prefix symbol + unit symbol/name/alias, exponent styles)."""
    un, pn, e = t
    u = w.m.Unit._by_name[un]
    p = w.m.Prefix._by_name[pn] if pn else None
    heads = set()
    for s in u.symbols:
        heads.add((p.symbol if p else "") + s)
    if not p:
        for nm in u.names:
            if SYMBOL_RE.fullmatch(nm):
                heads.add(nm)
    out = []
    for h in sorted(heads):
        if e == 1:
            out.append(h)
            out.append(h + "^1")
            out.append(h + "¹")
        else:
            out.append(h + "^" + str(e))
            out.append(h + str(e).translate(SUP))
    return out


def unit_spellings(w, ta, tb):
    """All spellings of term_a * term_b (exponents may be negative)."""
    out = []
    sa, sb = term_spellings(w, ta), term_spellings(w, tb)
    for a in sa:
        for b in sb:
            for sep in ("*", "⋅", " ", " * ", "\t⋅\t"):
                out.append(a + sep + b)
    # ratio form when exactly one exponent is negative, or both
    def pos(t):
        return (t[0], t[1], abs(t[2]))
    if ta[2] > 0 and tb[2] < 0:
        for a in sa:
            for b in term_spellings(w, pos(tb)):
                for sep in ("/", " / ", "\t/ "):
                    out.append(a + sep + b)
    if ta[2] < 0 and tb[2] > 0:
        for a in term_spellings(w, pos(ta)):
            for b in sb:
                for sep in ("/", " / "):
                    out.append(b + sep + a)
    return out


def _d_chunk(pairs):
    w = get_world()
    from measured.parsing import ParseError

    viols, outcomes = [], {}
    n = 0
    for ta, tb in pairs:
        w.restore()
        ua, ub = build_term(w, ta), build_term(w, tb)
        target = ua * ub
        for text in unit_spellings(w, ta, tb):
            n += 1
            try:
                got = w.m.Unit.parse(text)
            except (ParseError, KeyError) as e:
                outcomes["rejected"] = outcomes.get("rejected", 0) + 1
                viols.append(("spelling_rejected", spelling_class(text), f"{text!r} (a spelling of {ta}*{tb}) does not parse: {type(e).__name__}", {"d": [list(ta), list(tb)], "text": text}))
                continue
            except Exception as e:  # noqa
                viols.append(("parse_escaped_exception", spelling_class(text), f"{text!r}: {type(e).__name__}", {"d": [list(ta), list(tb)], "text": text}))
                continue
            if got is target:
                outcomes["same_object"] = outcomes.get("same_object", 0) + 1
            elif got.dimension is target.dimension and _same_size(w, got, target):
                outcomes["equal_scale"] = outcomes.get("equal_scale", 0) + 1
            else:
                outcomes["different"] = outcomes.get("different", 0) + 1
                viols.append(("spelling_parses_to_different_unit", spelling_class(text), f"{text!r} (a spelling of {ta}*{tb}) parses to {w.ustr(got)}, not {w.ustr(target)}", {"d": [list(ta), list(tb)], "text": text}))
    w.restore()
    return n, viols, outcomes


def spelling_class(text):
    feats = []
    if "^" in text:
        feats.append("caret")
    if re.search(r"[⁻⁰¹²³⁴⁵⁶⁷⁸⁹]", text):
        feats.append("superscript")
    if "/" in text:
        feats.append("ratio")
    if "\t" in text:
        feats.append("tab")
    elif " " in text:
        feats.append("space")
    if "*" in text:
        feats.append("star")
    if "⋅" in text:
        feats.append("dot")
    return "+".join(feats) or "plain"


# ------------------------------------------------------------------ (e) configurations

_CONF_CODE = r"""
import sys, json, importlib
import mc
from mc.world import World
conf = json.load(sys.stdin)
# a configuration is a list of modules, or {"stages": [[modules], [modules], ...]}: every stage
# imports its modules and then runs the whole round trip, so that text parsed while fewer
# units were registered is parsed again after more of them are (parse results must follow
# the registry, not the parse history)
stages = conf["stages"] if isinstance(conf, dict) else [conf]
w = World(modules=tuple("measured." + m for m in stages[0]))
import mc.world as W
W._WORLD = w
from mc.checks import c13
n, viols, outcomes = 0, [], {}
for si, stage in enumerate(stages):
    if si:
        failed = None
        for m in stage:
            try:
                importlib.import_module("measured." + m)
            except Exception as e:
                failed = f"{type(e).__name__}: {e}"
                break
        if failed:
            # text parsed in the earlier stage left something behind that now collides with a
            # shipped declaration
            viols.append(["import_fails_after_parsing", f"stage {stage}", f"after a full round trip over {stages[:si]}, importing measured.{m} raised {failed}", {"conf": conf, "a": None, "stage": si}])
            break
        c13._ORACLE = None
    units = c13.named_units(w)
    pre = c13.prefixes(w)
    for u in units:
        for p in pre:
            for e in (1, -1, 2):
                try:
                    x = (p * u) ** e
                except Exception:
                    continue
                n += 1
                oc, v = c13.judge_unit(w, x, f"({p.name or 'identity'}*{u.name})**{e}")
                outcomes[oc] = outcomes.get(oc, 0) + 1
                if v:
                    viols.append([v[0], v[1], v[2], {"conf": conf, "a": [u.name, p.name, e], "stage": si}])
print(json.dumps({"n": n, "viols": viols, "outcomes": outcomes, "units": len(units)}))
"""


def _conf_run(mods):
    return run_py(_CONF_CODE, mods)


def run(rep, tier):
    thorough = tier == "thorough"
    w = get_world()
    units = named_units(w)
    outcomes = {}
    n = 0

    def absorb(res, tag):
        nonlocal n
        for r in res:
            n += r[0]
            rep.extend(r[1])
            for k, v in r[2].items():
                outcomes[f"{tag}:{k}"] = outcomes.get(f"{tag}:{k}", 0) + v

    absorb(pmap(_a_chunk, chunked(rotate(list(range(len(units)))), 64)), "a")
    n_a = n
    terms = b_terms(w)
    pairs = [(a, b) for a in terms for b in terms if a[0] != b[0]]
    if not thorough:
        pairs = pairs[::7]
    absorb(pmap(_b_chunk, chunked(pairs, 128)), "bc")
    dpairs = pairs if thorough else pairs[::5]
    absorb(pmap(_d_chunk, chunked(dpairs, 128)), "d")
    # configurations
    confs = [[m] for m in MODULES]
    if thorough:
        confs += [list(c) for c in itertools.combinations(MODULES, 2)]
    # staged configurations: some modules, a full round trip, then everything, again
    firsts = [[m] for m in MODULES] if thorough else [["si"], ["us"], ["iec", "si"], ["avoirdupois"], ["astronomical"]]
    confs += [{"stages": [f, ["systems"]]} for f in firsts]
    if thorough:
        confs += [{"stages": [[a], [b], ["systems"]]} for a, b in (("si", "us"), ("us", "si"), ("iec", "us"), ("natural", "iso"))]
    n_conf = 0
    for mods, r in zip(confs, pmap(_conf_run, confs)):
        n += r["n"]
        n_conf += 1
        for v in r["viols"]:
            rep.violation(v[0], v[1], f"[modules {mods}] {v[2]}", v[3])
        for k, v in r["outcomes"].items():
            outcomes[f"e:{k}"] = outcomes.get(f"e:{k}", 0) + v
    rep.cov.update(
        {
            "evaluations": n,
            "distinct_nontrivial": n_a + len(pairs) + len(dpairs),
            "rule": f"(a) {len(prefixes(w))} prefixes x {len(units)} named units x exponents {EXPS}; (b) ordered pairs of "
            f"{len(terms)} terms (12 units x 5 prefixes x 4 exponents)" + ("" if thorough else ", every 7th pair (fixed stride)")
            + f"; (c) x magnitudes {MAGS}; (d) every spelling (caret|superscript, *|dot|space|tab, ratio|negative exponents, symbol|name|alias) "
            "of the (b) units; (e) import closures in fresh interpreters. non-trivial = distinct unit expressions (counted)",
            "configurations": n_conf,
            "distinct_outcomes": dict(sorted(outcomes.items())),
            "samples": ["(kilo*meter)**-2", "('newton','milli',-1)*('hour',None,2)", "km^2 /\tµs", "7 kg⋅m⁻¹"],
            "exhaustive": True,
        }
    )
    rep.assumptions.append("findings are keyed by (failure kind, input-side class of the unit / spelling), see known_findings.json")


def replay(obj, kind=None):
    if "conf" in obj:
        r = _conf_run(obj["conf"])
        hit = [v for v in r["viols"] if v[3]["a"] == obj["a"] and v[3].get("stage", 0) == obj.get("stage", 0)]
        return bool(hit), "; ".join(v[2] for v in hit) or "round trip fine in this configuration"
    w = get_world()
    if "a" in obj:
        un, pn, e = obj["a"]
        # one unit's prefixes and exponents share a restored state: re-run that row first
        names = [x.name for x in named_units(w)]
        if un in names:
            n_, viols_, _ = _a_chunk([names.index(un)])
            hit = [v for v in viols_ if v[3]["a"] == obj["a"] and (kind is None or v[0] == kind)]
            if hit:
                return True, hit[0][2]
        u = w.m.Unit._by_name[un]
        p = w.m.Prefix._by_name[pn] if pn else w.m.IdentityPrefix
        oc, v = judge_unit(w, (p * u) ** e, f"({pn}*{un})**{e}")
        return v is not None, f"{oc}: {v}"
    if "d" in obj:
        ta, tb = tuple(obj["d"][0]), tuple(obj["d"][1])
        n, viols, outcomes = _d_chunk([(ta, tb)])
        hit = [v for v in viols if v[3].get("text") == obj["text"]]
        return bool(hit), "; ".join(v[2] for v in hit) or "spelling fine"
    if "b" in obj:
        ta, tb = tuple(obj["b"][0]), tuple(obj["b"][1])
        n, viols, outcomes = _b_chunk([(ta, tb)])
        hit = [v for v in viols if v[0] == kind] if kind else viols
        return bool(hit), "; ".join(v[2] for v in hit[:3]) or "fine"
    raise HarnessError("unknown replay object")

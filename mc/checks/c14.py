"""C14 — first-order Gaussian uncertainty propagation for independent inputs.

Complete product: operator x operand kinds (Measurement/Quantity on either side) x measurand
grid x uncertainty grid x magnitude types x unit choices, compared in SI with a model that
writes the partial derivatives out per operator in exact rational arithmetic."""
import itertools
import math
from decimal import Decimal
from fractions import Fraction

from ..common import chunked, pmap, rotate
from ..world import get_world

MEASURANDS = [-7, -1, -0.25, 0, 0.5, 3, 1000, 5e-10, -2e-10]  # tiny but non-zero: a tolerance in a zero guard must not swallow them
SIGMAS = [0, 0.01, 0.3, 2]
TYPES = ["float", "int", "Decimal"]
POWERS = [-4, -3, -2, -1, 0, 1, 2, 3, 4]
REL = Fraction(1, 10**9)
ABS = Fraction(1, 10**12)


def cast(x, t):
    if t == "float":
        return float(x)
    if t == "int":
        return int(x) if float(x) == int(x) else None
    return Decimal(str(x))


def F(x):
    return Fraction(str(x)) if isinstance(x, Decimal) else Fraction(x)


def fsqrt(fr):
    """sqrt of a non-negative Fraction as a Fraction, to ~50 digits."""
    if fr == 0:
        return Fraction(0)
    from decimal import getcontext

    getcontext().prec = 60
    d = (Decimal(fr.numerator) / Decimal(fr.denominator)).sqrt()
    return Fraction(str(d))


def model(op, a, sa, b=None, sb=None, n=None):
    """(value, sigma) in SI, exact."""
    if op == "+":
        return a + b, fsqrt(sa * sa + sb * sb)
    if op == "-":
        return a - b, fsqrt(sa * sa + sb * sb)
    if op == "*":
        return a * b, fsqrt((b * sa) ** 2 + (a * sb) ** 2)
    if op == "/":
        return a / b, fsqrt((sa / b) ** 2 + (a * sb / (b * b)) ** 2)
    if op == "**":
        if n == 0:
            return Fraction(1), Fraction(0)
        return a**n, abs(n * a ** (n - 1)) * sa
    raise ValueError(op)


# mile and inch are several declared equivalences apart (mile -> foot -> inch): the
# uncertainty of a sum is sqrt(u1**2 + u2**2) computed on quantities, i.e. through a
# conversion of a SQUARED unit along a multi-hop path
UNITS_A = ["Meter", "Foot", "KiloMeter", "Mile"]
UNITS_B_ADD = ["Meter", "Foot", "KiloMeter", "Inch"]
UNITS_B_MUL = ["Second", "Minute", "Foot"]


def get_units(w):
    from measured.si import Kilo, Meter, Minute, Second
    from measured.us import Foot, Inch, Mile

    return {
        "Meter": (Meter, Fraction(1)),
        "Foot": (Foot, Fraction("0.3048")),
        "KiloMeter": (Kilo * Meter, Fraction(1000)),
        "Mile": (Mile, Fraction("1609.344")),
        "Inch": (Inch, Fraction("0.0254")),
        "Second": (Second, Fraction(1)),
        "Minute": (Minute, Fraction(60)),
    }


def si_size(w, U, unit_names_exps):
    s = Fraction(1)
    for name, e in unit_names_exps:
        s *= U[name][1] ** e
    return s


def cases(thorough):
    out = []
    ms = MEASURANDS
    for op in "+-*/":
        ubs = UNITS_B_ADD if op in "+-" else UNITS_B_MUL
        for kind in ("MM", "MQ", "QM"):
            for ta, tb in itertools.product(TYPES, TYPES):
                if not thorough and ta != tb and "Decimal" in (ta, tb) and "int" in (ta, tb):
                    continue
                for ua in UNITS_A:
                    for ub in ubs:
                        for ma, mb in itertools.product(ms, ms):
                            for sa, sb in itertools.product(SIGMAS, SIGMAS):
                                if kind == "MQ" and sb != 0:
                                    continue
                                if kind == "QM" and sa != 0:
                                    continue
                                if not thorough and (ms.index(ma) + ms.index(mb) + SIGMAS.index(sa) + SIGMAS.index(sb) + UNITS_A.index(ua)) % 3:
                                    continue
                                out.append((op, kind, ta, tb, ua, ub, ma, mb, sa, sb))
    for n in POWERS:
        for ta in TYPES:
            for ua in UNITS_A:
                for ma in ms:
                    for sa in SIGMAS:
                        out.append(("**", "M", ta, None, ua, None, ma, None, sa, n))
    return out


def eval_case(w, U, case):
    """Returns (status, detail). status in ok / skip / viol kinds."""
    M = w.m.Measurement
    op, kind, ta, tb, ua, ub, ma, mb, sa, sbn = case
    a_mag = cast(ma, ta)
    if a_mag is None:
        return "skip", None
    unit_a, size_a = U[ua]
    a_si, sa_si = F(a_mag) * size_a, F(cast(sa, "float" if ta == "int" else ta)) * size_a
    sa_mag = cast(sa, "float" if ta == "int" else ta)
    if op == "**":
        n = sbn
        if a_si == 0 and n <= 0:
            return "skip", None  # 0**0 and 0**negative are excluded from the alphabet
        x = M(a_mag * unit_a, sa_mag)
        plain = (a_mag * unit_a) ** n
        exp_val, exp_sig = model("**", a_si, sa_si, n=n)
        res_size = size_a**n
        try:
            r = x**n
        except Exception as e:  # noqa
            return "raised", f"{type(e).__name__}: {e}"
    else:
        b_mag = cast(mb, tb)
        if b_mag is None:
            return "skip", None
        unit_b, size_b = U[ub]
        sb_mag = cast(sbn, "float" if tb == "int" else tb)
        b_si, sb_si = F(b_mag) * size_b, F(sb_mag) * size_b
        if op == "/" and b_si == 0:
            return "skip", None
        qa, qb = a_mag * unit_a, b_mag * unit_b
        x = M(qa, sa_mag) if kind[0] == "M" else qa
        y = M(qb, sb_mag) if kind[1] == "M" else qb
        exp_val, exp_sig = model(op, a_si, sa_si, b_si, sb_si)
        try:
            if op == "+":
                r, plain = x + y, qa + qb
            elif op == "-":
                r, plain = x - y, qa - qb
            elif op == "*":
                r, plain = x * y, qa * qb
            else:
                r, plain = x / y, qa / qb
        except Exception as e:  # noqa
            return "raised", f"{type(e).__name__}: {e}"
        if op in "+-":
            res_size = size_a
        elif op == "*":
            res_size = size_a * size_b
        else:
            res_size = size_a / size_b
    if not isinstance(r, M):
        return "not_a_measurement", f"result is {type(r).__name__}"
    # "the resulting measurand equals the same operation on the plain quantities": equal as
    # a quantity (value); the unit it is expressed in is not constrained (Q + M answers in
    # M's unit through the reflected operator)
    res_size = unit_size(r.measurand.unit)
    got_val = F(r.measurand.magnitude) * res_size
    scale = max(abs(exp_val), abs(a_si), abs(b_si) if op != "**" else 0)
    if not (r.measurand == plain or plain == r.measurand) and abs(
        F(plain.magnitude) * _plain_size(U, plain, res_size, r) - got_val
    ) > REL * scale + ABS:
        return "measurand_differs_from_plain", f"measurand {r.measurand!r} vs plain {plain!r}"
    if abs(got_val - exp_val) > REL * scale + ABS:
        return "measurand_value", f"measurand SI {float(got_val)!r}, expected {float(exp_val)!r}"
    u = r.uncertainty
    if u.unit is not r.measurand.unit:
        return "uncertainty_unit", f"{u.unit} vs {r.measurand.unit}"
    try:
        nan = math.isnan(float(u.magnitude))
    except Exception:
        nan = False
    if nan:
        return "uncertainty_nan", f"uncertainty {u.magnitude!r}"
    if u.magnitude < 0:
        return "negative_uncertainty", f"uncertainty {u.magnitude!r}"
    got_sig = F(u.magnitude) * abs(res_size)
    if abs(got_sig - exp_sig) > REL * abs(exp_sig) + ABS * abs(res_size):
        return "wrong_uncertainty", f"uncertainty {u.magnitude!r} {u.unit} (SI {float(got_sig)!r}), Gaussian propagation gives SI {float(exp_sig)!r}"
    return "ok", None


BASE_SIZES = {"meter": Fraction(1), "foot": Fraction("0.3048"), "second": Fraction(1), "minute": Fraction(60),
              "mile": Fraction("1609.344"), "inch": Fraction("0.0254")}


def unit_size(unit):
    """SI size of a unit built from the four base units used here (model side: exact)."""
    p = unit.prefix
    s = Fraction(1) if p.base == 0 else Fraction(p.base) ** int(p.exponent)
    for f, e in unit.factors.items():
        if f.name == "one":
            continue
        s *= BASE_SIZES[f.name] ** e
    return s


def _plain_size(U, plain, res_size, r):
    return unit_size(plain.unit)


def case_key(case):
    op, kind, ta, tb, ua, ub, ma, mb, sa, sbn = case
    if op == "**":
        return f"M**{sbn}" + (" zero measurand" if ma == 0 else "")
    z = ""
    if ma == 0 or mb == 0:
        z = " zero measurand"
    return f"{kind[0]}{op}{kind[1]}{z}"


def _chunk(cs):
    w = get_world()
    U = get_units(w)
    viols = []
    n = 0
    outcomes = {}
    nontrivial = set()
    for case in cs:
        st, detail = eval_case(w, U, case)
        if st == "skip":
            continue
        n += 1
        outcomes[st] = outcomes.get(st, 0) + 1
        if case[8] != 0 or (case[0] != "**" and case[9] != 0):
            nontrivial.add(case)
        if st != "ok":
            viols.append((st, case_key(case), f"case {case}: {detail}", {"case": list(case)}))
    return n, len(nontrivial), viols, outcomes


def run(rep, tier):
    thorough = tier == "thorough"
    cs = rotate(cases(thorough))
    res = pmap(_chunk, chunked(cs, 64))
    outcomes = {}
    for r in res:
        rep.extend(r[2])
        for k, v in r[3].items():
            outcomes[k] = outcomes.get(k, 0) + v
    rep.cov.update(
        {
            "evaluations": sum(r[0] for r in res),
            "distinct_nontrivial": sum(r[1] for r in res),
            "rule": "operator (+ - * / with M.M, M.Q, Q.M; **n, n in [-4,4]) x measurand grid "
            f"{MEASURANDS} x uncertainty grid {SIGMAS} x magnitude types x units (m, ft, km; s, min); "
            "non-trivial = at least one non-zero uncertainty; undefined cases (x/0, 0**negative) excluded"
            + ("" if thorough else "; quick tier walks every third grid point of the binary-operator product (fixed stride)"),
            "distinct_outcomes": outcomes,
            "samples": [list(map(str, c)) for c in cs[:5]],
            "exhaustive": True,
        }
    )
    rep.assumptions.append("compared in SI with relative tolerance 1e-9 (absolute 1e-12 near zero)")


def replay(obj, kind=None):
    w = get_world()
    U = get_units(w)
    case = tuple(obj["case"])
    st, detail = eval_case(w, U, case)
    return st not in ("ok", "skip"), f"{case}: {st} {detail}"

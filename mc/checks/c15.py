"""C15 — pickle, copy, deepcopy and JSON round-trip every value, preserving singleton identity.

  S  singletons: EVERY interned Dimension, Prefix and Unit of the shipped configuration, and
     every unit of the C13 space (prefix x named unit x exponent; two-term products), through
     every codec: pickle protocols 2-5, copy, deepcopy, MeasuredJSONEncoder/Decoder,
     codecs_installed()+json, pydantic TypeAdapter (python / json mode).  loads(dumps(x)) is x,
     and every slot of x (names, symbols, factors, ...) is unchanged afterwards.
  Q  quantities over those units x {int, float, Decimal, zero, negative, huge, tiny}: equal,
     same magnitude type; same unit object for pickle/copy; JSON / pydantic / SQL composite.
  P  two-process histories: dumped here, loaded in a brand-new interpreter where the unit
     was never interned; structure, identity with the re-evaluated defining expression, and
     the dimension invariant on that interpreter's intern table.

Quantity JSON stores str(unit); where that text does not parse back (C13's open findings)
the failure is keyed by the same input-side class of the unit.
"""
import copy
import io
import json
import pickle
from decimal import Decimal

from ..common import HarnessError, chunked, pmap, rotate, run_py
from ..world import get_world
from . import c13

# Decimals whose text looks like an integer, has an exponent or trailing zeros included: the
# magnitude type must survive the text forms
MAGS = [7, 2.5, Decimal("1.10"), 0, -3, 1e21, 1e-7, Decimal("-0.5"), Decimal("5"), Decimal("-12"), Decimal("0"), Decimal("1E+3"), 0.0]
CODECS = ["pickle2", "pickle3", "pickle4", "pickle5", "copy", "deepcopy", "json", "json_installed",
          "json_installed_options", "json_installed_file", "pydantic_python", "pydantic_json"]
Q_CODECS = CODECS + ["composite", "json_method"]

_ADAPTERS = {}


def adapter(cls):
    from pydantic import TypeAdapter

    if cls not in _ADAPTERS:
        _ADAPTERS[cls] = TypeAdapter(cls)
    return _ADAPTERS[cls]


def roundtrip(w, codec, x):
    m = w.m
    import measured.json as mj

    if codec.startswith("pickle"):
        return pickle.loads(pickle.dumps(x, protocol=int(codec[-1])))
    if codec == "copy":
        return copy.copy(x)
    if codec == "deepcopy":
        return copy.deepcopy(x)
    if codec == "json":
        return json.loads(json.dumps(x, cls=mj.MeasuredJSONEncoder), cls=mj.MeasuredJSONDecoder)
    if codec == "json_installed":
        with mj.codecs_installed():
            return json.loads(json.dumps(x))
    if codec == "json_installed_options":
        # json.loads builds a plain JSONDecoder(**options) as soon as any option is given: the
        # installed codecs must reach that one too
        with mj.codecs_installed():
            text = json.dumps(x)  # (dumps with options builds its own encoder; the library only claims the default one)
            a = json.loads(text, strict=False)
            b = json.loads(text, parse_float=float)
            if (a is not b) and not (a == b):
                raise ValueError(f"json.loads(strict=False) and json.loads(parse_float=float) disagree: {a!r} vs {b!r}")
            return a
    if codec == "json_installed_file":
        with mj.codecs_installed():
            buf = io.StringIO()
            json.dump(x, buf)
            buf.seek(0)
            return json.load(buf)
    if codec == "pydantic_python":
        a = adapter(type(x))
        return a.validate_python(a.dump_python(x))
    if codec == "pydantic_json":
        a = adapter(type(x))
        return a.validate_json(a.dump_json(x))
    if codec == "composite":
        return m.Quantity(*x.__composite_values__())
    if codec == "json_method":
        return type(x).__from_json__(json.loads(json.dumps(x.__json__(), cls=mj.MeasuredJSONEncoder), cls=mj.MeasuredJSONDecoder)
                                     if not isinstance(x, m.Quantity) else x.__json__())
    raise HarnessError(codec)


def slots_of(x):
    out = {}
    for k in type(x).__slots__:
        if hasattr(x, k):
            v = getattr(x, k)
            out[k] = dict(v) if isinstance(v, dict) else v
    return out


def unit_class(w, u):
    """Input-side class of a unit for keying (C13's classification + structure)."""
    return c13.input_class(w, u)


def structure(w, x):
    m = w.m
    if isinstance(x, m.Unit):
        if w.is_base(x):
            return "base unit"
        named = "named " if x.names else ""
        pre = "prefixed " if x.prefix.base else ""
        return f"{named}{pre}compound unit"
    return type(x).__name__.lower()


def check_singleton(w, x, label, out, rp):
    m = w.m
    before = slots_of(x)
    for codec in CODECS:
        out["n"] += 1
        try:
            y = roundtrip(w, codec, x)
        except Exception as e:  # noqa
            out["viols"].append((f"{codec}_raises", f"{structure(w, x)}", f"{codec} round trip of {label} raised {type(e).__name__}: {str(e)[:200]}", dict(rp, codec=codec)))
            out["outcomes"][f"{codec}:raised"] = out["outcomes"].get(f"{codec}:raised", 0) + 1
            continue
        out["outcomes"][f"{codec}:{'identical' if y is x else 'other'}"] = out["outcomes"].get(f"{codec}:{'identical' if y is x else 'other'}", 0) + 1
        if y is not x:
            out["viols"].append((f"{codec}_not_identical", f"{structure(w, x)}", f"{codec} round trip of {label} returned {y!r} (id {id(y):#x}), not the singleton (id {id(x):#x})", dict(rp, codec=codec)))
        after = slots_of(x)
        if after != before:
            out["viols"].append((f"{codec}_changes_singleton", f"{structure(w, x)}", f"{codec} round trip of {label} changed its state: {before} -> {after}", dict(rp, codec=codec)))
            before = after


def check_quantity(w, u, label, out, rp):
    m = w.m
    from measured.parsing import ParseError

    cls = None
    for mg in MAGS:
        q = mg * u
        for codec in Q_CODECS:
            out["n"] += 1
            try:
                y = roundtrip(w, codec, q)
            except (ParseError, KeyError) as e:
                if codec in ("json", "json_installed", "json_installed_options", "json_installed_file", "pydantic_json", "pydantic_python", "composite", "json_method"):
                    cls = cls or unit_class(w, u)
                    out["viols"].append(("quantity_text_form_not_parsable", cls, f"{codec} round trip of {mg!r} x {label}: str(unit) = {str(u)!r} does not parse ({type(e).__name__})", dict(rp, codec=codec, m=repr(mg))))
                    out["outcomes"][f"q {codec}:unit text unparsable"] = out["outcomes"].get(f"q {codec}:unit text unparsable", 0) + 1
                    continue
                out["viols"].append((f"quantity_{codec}_raises", structure(w, u), f"{codec} round trip of {mg!r} x {label} raised {type(e).__name__}: {e}", dict(rp, codec=codec, m=repr(mg))))
                continue
            except Exception as e:  # noqa
                out["viols"].append((f"quantity_{codec}_raises", structure(w, u), f"{codec} round trip of {mg!r} x {label} raised {type(e).__name__}: {str(e)[:200]}", dict(rp, codec=codec, m=repr(mg))))
                continue
            out["outcomes"][f"q {codec}:returned"] = out["outcomes"].get(f"q {codec}:returned", 0) + 1
            if codec == "pydantic_python" and y is q:
                continue  # python mode hands the object through
            if not isinstance(y, m.Quantity):
                out["viols"].append(("quantity_not_decoded", codec, f"{codec}: {q!r} came back as {type(y).__name__} {str(y)[:80]!r}", dict(rp, codec=codec, m=repr(mg))))
                continue
            same_unit = y.unit is u
            if type(y.magnitude) is not type(mg) or y.magnitude != mg:
                out["viols"].append(("quantity_magnitude_changed", codec, f"{codec}: {q!r} came back as {y!r} (magnitude {y.magnitude!r}, {type(y.magnitude).__name__})", dict(rp, codec=codec, m=repr(mg))))
                continue
            if codec.startswith("pickle") or codec in ("copy", "deepcopy"):
                if not same_unit:
                    out["viols"].append(("quantity_unit_not_identical", codec, f"{codec}: unit of {q!r} came back as another object {y.unit!r}", dict(rp, codec=codec, m=repr(mg))))
                continue
            if same_unit:
                continue
            # text-based codecs: an equal quantity is enough (kg-style re-spellings)
            if c13.quantities_equal(w, y, q):
                continue
            cls = cls or unit_class(w, u)
            out["viols"].append(("quantity_comes_back_different", cls, f"{codec}: {q!r} (unit text {str(u)!r}) came back as {y!r}", dict(rp, codec=codec, m=repr(mg))))


def _chunk(args):
    kind, items = args
    w = get_world()
    m = w.m
    out = {"n": 0, "viols": [], "outcomes": {}, "nt": 0}
    if kind == "interned":
        inst = w.instances()
        for i in items:
            x = inst[i]
            if isinstance(x, (m.Logarithm, m.LogarithmicUnit)):
                continue
            out["nt"] += 1
            label = repr(x)[:80]
            check_singleton(w, x, label, out, {"interned": i, "label": label})
            if isinstance(x, m.Unit) and i % 2 == 0:
                check_quantity(w, x, label, out, {"interned": i, "label": label, "q": True})
        return out
    units = c13.named_units(w)
    pre = c13.prefixes(w)
    if kind == "a":
        for ui, pi, e in items:
            w.restore()
            x = (pre[pi] * units[ui]) ** e
            out["nt"] += 1
            label = f"({pre[pi].name or 'identity'}*{units[ui].name})**{e}"
            check_singleton(w, x, label, out, {"a": [ui, pi, e]})
            if (ui + pi + e) % 4 == 0:
                check_quantity(w, x, label, out, {"a": [ui, pi, e], "q": True})
    else:
        for ta, tb in items:
            w.restore()
            try:
                x = c13.build_term(w, ta) * c13.build_term(w, tb)
            except Exception:  # noqa
                continue
            out["nt"] += 1
            label = f"{ta}*{tb}"
            check_singleton(w, x, label, out, {"b": [list(ta), list(tb)]})
            check_quantity(w, x, label, out, {"b": [list(ta), list(tb)], "q": True})
    w.restore()
    return out


# ------------------------------------------------------------------ two processes

_LOADER = r"""
import sys, json, pickle, base64
import mc
from mc.world import get_world
from mc.checks import c13, c15
w = get_world()
m = w.m
import measured.json as mj
payload = json.load(sys.stdin)
units = c13.named_units(w)
pre = c13.prefixes(w)
out = []
known_before = set(map(id, m.Unit._known.values()))
for item in payload:
    ta, tb = item["b"]
    row = {"b": item["b"]}
    try:
        up = pickle.loads(base64.b64decode(item["pickle"]))
        str(up), repr(up), up.dimension, up.factors, up.names, up.symbols  # usable as it arrives
        row["pickle_key"] = repr(w.ukey(up))
        row["pickle_dim"] = list(up.dimension.exponents)
        uj = json.loads(item["json"], cls=mj.MeasuredJSONDecoder)
        row["json_same_as_pickle"] = uj is up
        expr = c13.build_term(w, tuple(ta)) * c13.build_term(w, tuple(tb))
        row["expr_is_loaded"] = expr is up
        row["expr_key"] = repr(w.ukey(expr))
        qp = pickle.loads(base64.b64decode(item["qpickle"]))
        row["q_ok"] = (qp.unit is up) and repr(qp.magnitude) == item["qmag"]
    except Exception as e:
        row["error"] = f"{type(e).__name__}: {e}"
    out.append(row)
bad = c15.dimension_invariant(w)
print(json.dumps({"rows": out, "invariant": bad}))
"""


def dimension_invariant(w):
    """Every interned unit's dimension equals the product of its base factors' dimensions."""
    m = w.m
    bad = []
    for u in list(m.Unit._known.values()):
        try:
            if w.is_base(u):
                continue
            d = m.Number
            for f, e in u.factors.items():
                d = d * f.dimension**e
            if d is not u.dimension:
                bad.append(w.ustr(u))
        except Exception as e:  # noqa
            bad.append(f"<interned unit is unusable: {type(e).__name__}: {e}>")
    for cls in (m.Dimension, m.Prefix):
        for x in list(cls._known.values()):
            try:
                repr(x), str(x), hash(x)
                (x.exponents if cls is m.Dimension else (x.base, x.exponent))
            except Exception as e:  # noqa
                bad.append(f"<interned {cls.__name__} is unusable: {type(e).__name__}: {e}>")
    return bad


def two_process(rep, w, pairs):
    import base64
    import measured.json as mj

    payload = []
    keys = {}
    for ta, tb in pairs:
        w.restore()
        x = c13.build_term(w, ta) * c13.build_term(w, tb)
        q = Decimal("1.10") * x
        payload.append({
            "b": [list(ta), list(tb)],
            "pickle": base64.b64encode(pickle.dumps(x, protocol=4)).decode(),
            "json": json.dumps(x, cls=mj.MeasuredJSONEncoder),
            "qpickle": base64.b64encode(pickle.dumps(q, protocol=4)).decode(),
            "qmag": repr(q.magnitude),
        })
        keys[json.dumps([list(ta), list(tb)])] = (repr(w.ukey(x)), list(x.dimension.exponents))
    w.restore()
    n = 0
    for part in chunked(payload, (len(payload) + 7) // 8 or 1):
        res = run_py(_LOADER, input_obj=part)
        if res["invariant"]:
            rep.violation("loaded_unit_breaks_dimension_invariant", "fresh interpreter", f"after loading, interned units with a wrong dimension: {res['invariant'][:5]}", {"two": part[0]["b"]})
        for row in res["rows"]:
            n += 1
            k, dim = keys[json.dumps(row["b"])]
            rp = {"two": row["b"]}
            label = f"{row['b'][0]}*{row['b'][1]}"
            if "error" in row:
                rep.violation("cross_process_load_raises", "fresh interpreter", f"{label}: {row['error']}", rp)
            elif row["pickle_key"] != k or row["pickle_dim"] != dim:
                rep.violation("cross_process_structure_differs", "fresh interpreter", f"{label}: dumped {k} {dim}, loaded {row['pickle_key']} {row['pickle_dim']}", rp)
            elif not (row["json_same_as_pickle"] and row["expr_is_loaded"] and row["q_ok"]):
                rep.violation("cross_process_not_identical", "fresh interpreter", f"{label}: {row}", rp)
    return n


# ------------------------------------------------------------------ run / replay


def run(rep, tier):
    thorough = tier == "thorough"
    w = get_world()
    n_inst = len(w.instances())
    units = c13.named_units(w)
    pre = c13.prefixes(w)
    exps = c13.EXPS if thorough else [1, -1, 2]
    a_cases = [(ui, pi, e) for ui in range(len(units)) for pi in range(len(pre)) for e in exps]
    if not thorough:
        a_cases = [c for c in a_cases if (c[0] + c[1]) % 3 == 0 or pre[c[1]].name in ("kilo", "milli", "mebi", None)]
    terms = c13.b_terms(w)
    if not thorough:
        terms = [t for t in terms if t[1] in (None, "kilo", "mebi") and t[2] in (1, -1, 2)]
    b_cases = [(ta, tb) for ta in terms for tb in terms if ta[0] != tb[0]]
    work = [("interned", c) for c in chunked(range(n_inst), 48)]
    work += [("a", c) for c in chunked(rotate(a_cases), 64)]
    work += [("b", c) for c in chunked(rotate(b_cases), 64)]
    res = pmap(_chunk, work)
    n = nt = 0
    outcomes = {}
    for r in res:
        rep.extend(r["viols"])
        n += r["n"]
        nt += r["nt"]
        for k, v in r["outcomes"].items():
            outcomes[k] = outcomes.get(k, 0) + v
    stride = 7 if thorough else 37
    two = [p for i, p in enumerate(b_cases) if i % stride == 0]
    n_two = two_process(rep, w, two)
    rep.cov.update(
        {
            "evaluations": n + n_two,
            "distinct_nontrivial": nt + n_two,
            "rule": "every interned dimension/prefix/unit of the shipped configuration, every (prefix x named unit)**e and every two-term product of the C13 "
            "space x every codec (singleton identity + slot state), quantities over them x magnitude alphabet x codecs, and a stride of the products "
            "dumped here and loaded in brand-new interpreters; distinct_nontrivial counts distinct objects put through the codecs",
            "interned_objects": n_inst,
            "prefix_unit_exponent_cases": len(a_cases),
            "product_cases": len(b_cases),
            "cross_process_cases": n_two,
            "codecs": Q_CODECS,
            "magnitudes": [repr(x) for x in MAGS],
            "distinct_outcomes": dict(sorted(outcomes.items())),
            "samples": [str(a_cases[0]), str(b_cases[0])],
            "exhaustive": True,
        }
    )
    rep.assumptions += [
        "pydantic 2 TypeAdapter stands for 'pydantic models'; Quantity(*q.__composite_values__()) for the SQL composite form",
        "text-based codecs may return a kg-style re-spelling of the unit as long as the quantity is equal (C13's allowance)",
    ]


def replay(obj, kind=None):
    w = get_world()
    if "two" in obj:
        class R:
            def __init__(self):
                self.v = []

            def violation(self, *a):
                self.v.append(a)

        r = R()
        ta, tb = obj["two"]
        two_process(r, w, [(tuple(ta), tuple(tb))])
        hits = [v for v in r.v if kind is None or v[0] == kind]
        return (True, hits[0][2]) if hits else (False, "loads identically in a fresh interpreter")
    if "interned" in obj:
        # the index is only stable within one configuration: find by label
        inst = w.instances()
        idx = [i for i, x in enumerate(inst) if repr(x)[:80] == obj["label"]]
        r = _chunk(("interned", idx[:1]))
        if obj.get("q") and idx and idx[0] % 2:
            out = {"n": 0, "viols": [], "outcomes": {}, "nt": 0}
            check_quantity(w, inst[idx[0]], obj["label"], out, {})
            r["viols"] += out["viols"]
    elif "a" in obj:
        out = {"n": 0, "viols": [], "outcomes": {}, "nt": 0}
        ui, pi, e = obj["a"]
        x = (c13.prefixes(w)[pi] * c13.named_units(w)[ui]) ** e
        check_singleton(w, x, "unit", out, {})
        check_quantity(w, x, "unit", out, {})
        r = out
    else:
        ta, tb = obj["b"]
        out = {"n": 0, "viols": [], "outcomes": {}, "nt": 0}
        x = c13.build_term(w, tuple(ta)) * c13.build_term(w, tuple(tb))
        check_singleton(w, x, "unit", out, {})
        check_quantity(w, x, "unit", out, {})
        r = out
    hits = [v for v in r["viols"] if (kind is None or v[0] == kind) and (not obj.get("codec") or v[3].get("codec") == obj.get("codec"))]
    return (True, hits[0][2]) if hits else (False, "round trips")

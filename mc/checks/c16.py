"""C16 — the checked-in generated parser implements exactly the grammar file.

Model level (complete): product of the shipped LALR automaton (deserialised from
_parser.DATA/MEMO) with the automaton generated now from measured.lark exactly the way the
Makefile does (lark.tools.build_lalr, --start unit --start quantity): terminals, ignore set,
options that shape trees, rules, every reachable state pair x every symbol.
Conformance: all viable token sequences up to length N (+ each first rejecting token),
rendered with two lexemes per terminal and with/without whitespace, and all character
strings up to length L over a 15-character alphabet, through both runtimes and both starts.
"""
import itertools
import os

from .. import SRC
from ..common import HarnessError, chunked, pmap, rotate
from ..lalr import lexer_sig, norm_table, options_dict, product, token_sequences, tree_sig

GRAMMAR = os.path.join(SRC, "measured", "measured.lark")
STARTS = ["unit", "quantity"]

LEXEMES = {
    "SIGNED_INT": ["5", "-12"],
    "SIGNED_FLOAT": ["1.5", "+.5e-3"],
    "SYMBOL": ["m", "Å°"],
    "_MULTIPLY": ["*", "⋅"],
    "_DIVIDE": ["/", "/"],
    "CARAT_EXPONENT": ["^2", "^-3"],
    "SUPERSCRIPT_EXPONENT": ["²", "⁻¹⁰"],
}
TERMS = list(LEXEMES)
ALPHABET = ["1", "m", "Å", "ₐ", "μ", ".", "-", "+", "e", "^", "²", "⁻", "/", "⋅", " "]

# a wider alphabet with the end points of every character class of both terminal sets; used
# for shorter strings
WIDE = ALPHABET + ["9", "0", "⁹", "⁰", "(", ")", "°", "☉", "ₜ", "ω", "Α", "A", "Z", "a", "z", "*", "E", "%", "\t",
                   # blanks: every member of WS, and characters str.isspace() accepts but WS does not
                   "\n", "\r", "\f", "\x0b", "\x1f", "\x85", "\u00a0", "\u2009", "\u3000"]

_P = {}


def parsers():
    """(shipped runtime, fresh Lark) built once per process."""
    if not _P:
        from lark.tools import build_lalr, lalr_argparser

        from measured import _parser

        _P["shipped"] = _parser.Parser()
        ns = lalr_argparser.parse_args(["--start", "unit", "--start", "quantity", GRAMMAR])
        fresh, _ = build_lalr(ns)
        ns.grammar_file.close()
        _P["fresh"] = fresh
        _P["shipped_err"] = _parser.LarkError
        import lark

        _P["fresh_err"] = lark.exceptions.LarkError
    return _P


def outcome(p, err, text, start):
    try:
        t = p.parse(text, start=start)
    except err as e:
        return ("reject", type(e).__name__)
    except Exception as e:  # noqa: a parser built WITHOUT a transformer has nothing that could raise anything else
        return ("reject", "escaped " + type(e).__name__)
    try:
        return ("accept", tree_sig(t))
    except Exception as e:  # noqa: not a tree at all (a transformer leaked into the plain parser)
        return ("accept", ("not a parse tree", type(t).__name__, type(e).__name__))


def compare(text, start):
    P = parsers()
    a = outcome(P["shipped"], P["shipped_err"], text, start)
    b = outcome(P["fresh"], P["fresh_err"], text, start)
    if a[0] != b[0]:
        return a[0], ("language_differs", f"{text!r} as {start}: shipped parser {a[0]}s, grammar {b[0]}s ({a[1] if a[0]=='reject' else ''}{b[1] if b[0]=='reject' else ''})")
    if a[0] == "accept" and a[1] != b[1]:
        return a[0], ("tree_differs", f"{text!r} as {start}: shipped {a[1]} vs grammar {b[1]}")
    if a[0] == "reject" and a[1] != b[1]:
        return "reject", ("error_class_differs", f"{text!r} as {start}: {a[1]} vs {b[1]}")
    return a[0], None


def _ctx(history, viols):
    """The parsers are long-lived objects (the library keeps one at module level), so an
    outcome may depend on what was parsed before: the first violation of a chunk carries
    the chunk's whole history, and its replay parses that history first."""
    return {"history": list(history)} if not viols else {}


def _string_chunk(args):
    firsts, length, alphabet = args
    n = 0
    acc = 0
    viols = []
    history = []
    for f in firsts:
        for rest in itertools.product(alphabet, repeat=length - 1):
            text = f + "".join(rest)
            for start in STARTS:
                n += 1
                oc, v = compare(text, start)
                acc += oc == "accept"
                if v:
                    viols.append((v[0], f"{start}:{text!r}", v[1], {"text": text, "start": start, **_ctx(history, viols)}))
                history.append([text, start])
    return n, acc, viols


def render(seq, variant):
    lex = [LEXEMES[t][variant % 2] for t in seq]
    sep = " " if variant >= 2 else ""
    return sep.join(lex)


def _seq_chunk(args):
    start, seqs = args
    n = 0
    acc = 0
    viols = []
    history = []
    for seq, status in seqs:
        for variant in range(4):
            text = render(seq, variant)
            n += 1
            oc, v = compare(text, start)
            acc += oc == "accept"
            if v:
                viols.append((v[0], f"{start}:{text!r}", v[1], {"text": text, "start": start, **_ctx(history, viols)}))
            history.append([text, start])
    return n, acc, viols


def run(rep, tier):
    thorough = tier == "thorough"
    P = parsers()
    sp, fp = P["shipped"], P["fresh"]
    # ---- model level
    A = norm_table(sp.parser.parser._parse_table)
    B = norm_table(fp.parser.parser._parse_table)
    pairs, ntrans, mism = product(A, B)
    for kind, detail in mism:
        rep.violation("table_" + kind, detail[:160], f"LALR tables differ: {detail}", {"model": True})
    la, lb = lexer_sig(sp), lexer_sig(fp)
    for k in la:
        if la[k] != lb[k]:
            if k == "terminals":
                da = [t for t in la[k] if t not in lb[k]]
                db = [t for t in lb[k] if t not in la[k]]
                detail = f"shipped-only {da} grammar-only {db}"
            else:
                detail = f"{la[k]} vs {lb[k]}"
            rep.violation("lexer_" + k, detail[:160], f"lexer configuration differs in {k}: {detail}", {"model": True})
    oa, ob = options_dict(sp), options_dict(fp)
    for k in oa:
        if oa[k] != ob[k]:
            rep.violation("option_" + k, f"{oa[k]} vs {ob[k]}", f"parser option {k}: shipped {oa[k]!r}, Makefile command gives {ob[k]!r}", {"model": True})
    from ..lalr import rule_sig

    ra, rb = sorted(map(rule_sig, sp.rules), key=repr), sorted(map(rule_sig, fp.rules), key=repr)
    if ra != rb:
        rep.violation("rules_differ", f"{[r for r in ra if r not in rb][:2]} / {[r for r in rb if r not in ra][:2]}"[:200],
                      "rule sets differ", {"model": True})
    # ---- conformance: token sequences
    maxlen = 10 if thorough else 8
    nseq = 0
    jobs = []
    for start in STARTS:
        seqs = token_sequences(B, start, TERMS, maxlen)
        nseq += len(seqs)
        for c in chunked(seqs, 64):
            jobs.append((start, c))
    res = pmap(_seq_chunk, jobs)
    n_seq_parses = sum(r[0] for r in res)
    acc_seq = sum(r[1] for r in res)
    for r in res:
        rep.extend(r[2])
    # ---- conformance: character strings
    L = 6 if thorough else 4
    n_str = 0
    acc_str = 0
    for length in range(1, L + 1):
        firsts = rotate(ALPHABET)
        jobs = [(c, length, ALPHABET) for c in chunked(firsts, len(ALPHABET))]
        for r in pmap(_string_chunk, jobs):
            n_str += r[0]
            acc_str += r[1]
            rep.extend(r[2])
    LW = 4 if thorough else 3
    for length in range(1, LW + 1):
        jobs = [(c, length, WIDE) for c in chunked(rotate(WIDE), len(WIDE))]
        for r in pmap(_string_chunk, jobs):
            n_str += r[0]
            acc_str += r[1]
            rep.extend(r[2])
    rep.cov.update(
        {
            "states": pairs,
            "transitions": ntrans,
            "traces_validated_against_impl": n_seq_parses + n_str,
            "exhaustive": True,
            "state_pairs": pairs,
            "shipped_states": len(A["states"]),
            "grammar_states": len(B["states"]),
            "terminals": len(la["terminals"]),
            "rules": len(ra),
            "token_sequences": nseq,
            "token_sequence_parses": n_seq_parses,
            "token_sequence_accepts": acc_seq,
            "max_tokens": maxlen,
            "char_strings": n_str,
            "char_string_accepts": acc_str,
            "max_chars": L,
            "alphabet": ALPHABET,
            "wide_alphabet": WIDE,
            "max_chars_wide": LW,
            "samples": [render(("SIGNED_INT", "SYMBOL", "CARAT_EXPONENT", "_DIVIDE", "SYMBOL"), 2), "m⋅ₐ²", "1e-1 μ/m"],
        }
    )
    rep.assumptions += [
        "reference generator: the Lark installed in /venv (1.3.1), invoked as the Makefile rule does; the file was produced by 1.1.2; equality is up to state renaming",
        "an action-commuting bijection between reachable states of two LR automata implies equal behaviour on every token sequence",
    ]


def replay(obj, kind=None):
    if obj.get("model"):
        P = parsers()
        A = norm_table(P["shipped"].parser.parser._parse_table)
        B = norm_table(P["fresh"].parser.parser._parse_table)
        pairs, ntrans, mism = product(A, B)
        la, lb = lexer_sig(P["shipped"]), lexer_sig(P["fresh"])
        oa, ob = options_dict(P["shipped"]), options_dict(P["fresh"])
        from ..lalr import rule_sig

        rules_ok = sorted(map(rule_sig, P["shipped"].rules), key=repr) == sorted(map(rule_sig, P["fresh"].rules), key=repr)
        bad = bool(mism) or la != lb or oa != ob or not rules_ok
        return bad, f"table mismatches {mism[:3]}; lexer equal {la == lb}; options equal {oa == ob}; rules equal {rules_ok}"
    for t, st in obj.get("history") or []:
        compare(t, st)
    oc, v = compare(obj["text"], obj["start"])
    after = f" (after the {len(obj['history'])} parses that preceded it in its batch)" if obj.get("history") else ""
    return v is not None, f"{obj['text']!r} as {obj['start']}{after}: {oc} {v}"

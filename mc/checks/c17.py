"""C17 — parsing is total: any text yields a Unit/Quantity or ParseError/KeyError.

(a) every string up to length L over a 23-character alphabet (all lexer classes, registered
    symbols, and two characters no terminal accepts), through Unit.parse and Quantity.parse
    with every unit module imported;
(b) every viable token sequence up to length N (+ each first rejecting token) rendered with
    a menu of ordinary and extreme lexemes;
(c) every single-token mutation (delete / duplicate / swap adjacent) of the accepted ones.
Oracle: outcome class; determinism; registries unchanged after a rejection; magnitude type.
"""
import itertools
import math
import os
import re

from .. import SRC
from ..common import HarnessError, chunked, pmap, rotate
from ..lalr import norm_table, token_sequences
from ..world import get_world

ALPHABET = ["1", "m", "Å", "ₐ", "μ", ".", "-", "+", "e", "^", "²", "⁻", "/", "⋅", " ",
            "k", "s", "*", "(", ")", "9", "%", "é"]
ENTRY = ["unit", "quantity"]

FLOAT_RE = re.compile(r"[+-]?(?:[0-9]+[eE][+-]?[0-9]+|(?:[0-9]+\.[0-9]*|\.[0-9]+)(?:[eE][+-]?[0-9]+)?)")
INT_RE = re.compile(r"[+-]?[0-9]+")
WS = " \t\f\r\n"

LEXEMES = {
    "SIGNED_INT": ["5", "-0", "+7", "9" * 30, "0", "9" * 4400],
    "SIGNED_FLOAT": ["1.5", "1e999", "+.5", "-1e-999", "5.", "0.0"],
    "SYMBOL": ["m", "km", "zz", "Hz", "°C", "1", "in.", "kg"],
    "_MULTIPLY": ["*", "⋅"],
    "_DIVIDE": ["/"],
    "CARAT_EXPONENT": ["^2", "^-1", "^0", "^99999999999", "^+3", "^" + "1" * 4400],
    "SUPERSCRIPT_EXPONENT": ["²", "⁻¹", "⁰", "¹" * 50, "⁻⁰", "¹" * 4400],
}
TERMS = list(LEXEMES)


def reg_sizes(m):
    return (
        len(m.Unit._by_name), len(m.Unit._by_symbol), len(m.Prefix._by_name),
        len(m.Prefix._by_symbol), len(m.Dimension._by_name),
    )


def reg_keys(m):
    return (
        frozenset(m.Unit._by_name), frozenset(m.Unit._by_symbol), frozenset(m.Prefix._by_name),
        frozenset(m.Prefix._by_symbol), frozenset(m.Dimension._by_name),
    )


def expected_magnitude(text):
    t = text.lstrip(WS)
    f = FLOAT_RE.match(t)
    i = INT_RE.match(t)
    if f and (not i or f.end() > i.end()):
        return float(f.group(0))
    if i:
        return int(i.group(0))
    return None


def parse_once(m, perr, entry, text):
    try:
        v = m.Unit.parse(text) if entry == "unit" else m.Quantity.parse(text)
    except perr:
        return "ParseError", None
    except KeyError:
        return "KeyError", None
    except BaseException as e:  # noqa
        return "escaped:" + type(e).__name__, e
    return "value", v


def short(text):
    return text if len(text) <= 60 else text[:25] + f"...<{len(text)} chars>..." + text[-10:]


def shape_key(text):
    """Input-side description for keys: long digit runs abbreviated."""
    return re.sub(r"([0-9¹⁰]{12,})", lambda mo: f"<{len(mo.group(1))} digits>", short(text))


def check_text(m, perr, entry, text, viols):
    before = reg_sizes(m)
    oc, v = parse_once(m, perr, entry, text)
    if oc.startswith("escaped"):
        viols.append((oc.replace(":", "_"), f"{entry}: {shape_key(text)}", f"{entry}.parse({short(text)!r}) raised {oc[8:]}: {v}", {"entry": entry, "text": text}))
        return oc
    if oc != "value":
        if reg_sizes(m) != before:
            viols.append(("rejection_changed_registries", f"{entry}: {shape_key(text)}", f"after rejecting {short(text)!r} the registries grew {before} -> {reg_sizes(m)}", {"entry": entry, "text": text}))
        return oc
    want = m.Unit if entry == "unit" else m.Quantity
    if not isinstance(v, want):
        viols.append(("wrong_result_type", f"{entry}: {shape_key(text)}", f"{type(v).__name__} returned", {"entry": entry, "text": text}))
        return oc
    oc2, v2 = parse_once(m, perr, entry, text)
    same = (v2 is v) if entry == "unit" else (oc2 == "value" and v2.unit is v.unit and type(v2.magnitude) is type(v.magnitude) and (v2.magnitude == v.magnitude))
    if oc2 != "value" or not same:
        viols.append(("not_deterministic", f"{entry}: {shape_key(text)}", f"second parse of {short(text)!r} gave {oc2} {v2!r} vs {v!r}", {"entry": entry, "text": text}))
    if entry == "quantity":
        mag = v.magnitude
        exp = expected_magnitude(text)
        ok = type(mag) in (int, float) and exp is not None and type(mag) is type(exp) and (mag == exp or (isinstance(mag, float) and math.isnan(mag) and math.isnan(exp)))
        if not ok:
            viols.append(("magnitude_not_as_written", f"{entry}: {shape_key(text)}", f"{short(text)!r} -> magnitude {str(mag)[:40]!r} ({type(mag).__name__}), written {str(exp)[:40]!r}", {"entry": entry, "text": text}))
    return oc


def _string_chunk(args):
    firsts, length = args
    w = get_world()
    m = w.m
    from measured.parsing import ParseError

    viols = []
    outcomes = {}
    n = 0
    for f in firsts:
        w.restore()
        keys0 = reg_keys(m)
        rejected_any = False
        for rest in itertools.product(ALPHABET, repeat=length - 1):
            text = f + "".join(rest)
            for entry in ENTRY:
                n += 1
                oc = check_text(m, ParseError, entry, text, viols)
                outcomes[oc] = outcomes.get(oc, 0) + 1
        # full comparison per batch: accepted inputs may intern anonymous units, but no
        # parse may ever add or remove a name or a symbol
        if reg_keys(m) != keys0:
            viols.append(("parsing_changed_names_or_symbols", f"batch {f!r} len {length}", "a registry's key set changed during a batch of parses", {"entry": "unit", "text": f}))
    w.restore()
    return n, viols, outcomes


def render_all(seq, styles):
    out = []
    for k in range(styles):
        lex = [LEXEMES[t][k % len(LEXEMES[t])] for t in seq]
        out.append(("".join(lex), lex))
        out.append((" ".join(lex), lex))
    # extreme lexemes one position at a time
    return out


def _seq_chunk(args):
    entry, seqs, styles = args
    w = get_world()
    m = w.m
    from measured.parsing import ParseError

    viols = []
    outcomes = {}
    n = 0
    w.restore()
    keys0 = reg_keys(m)
    for seq, status in seqs:
        for text, lex in render_all(seq, styles):
            n += 1
            oc = check_text(m, ParseError, entry, text, viols)
            outcomes[oc] = outcomes.get(oc, 0) + 1
            if oc == "value" and len(lex) <= 5:
                # single-token mutations of an accepted sequence
                muts = []
                for i in range(len(lex)):
                    muts.append(lex[:i] + lex[i + 1:])
                    muts.append(lex[: i + 1] + lex[i:])
                    if i + 1 < len(lex):
                        muts.append(lex[:i] + [lex[i + 1], lex[i]] + lex[i + 2:])
                for mu in muts:
                    n += 1
                    oc2 = check_text(m, ParseError, entry, " ".join(mu), viols)
                    outcomes["mut:" + oc2] = outcomes.get("mut:" + oc2, 0) + 1
    if reg_keys(m) != keys0:
        viols.append(("parsing_changed_names_or_symbols", f"token batch {entry}", "a registry's key set changed during a batch of parses", {"entry": entry, "text": ""}))
    w.restore()
    return n, viols, outcomes


def fresh_table():
    from lark.tools import build_lalr, lalr_argparser

    ns = lalr_argparser.parse_args(["--start", "unit", "--start", "quantity", os.path.join(SRC, "measured", "measured.lark")])
    fresh, _ = build_lalr(ns)
    ns.grammar_file.close()
    return norm_table(fresh.parser.parser._parse_table)


def run(rep, tier):
    thorough = tier == "thorough"
    w = get_world()
    L = 5 if thorough else 4
    n = 0
    outcomes = {}
    for length in range(1, L + 1):
        firsts = rotate(ALPHABET)
        for r in pmap(_string_chunk, [(c, length) for c in chunked(firsts, len(ALPHABET) * (4 if length >= 4 else 1))] if length >= 4 else [([f], length) for f in firsts]):
            n += r[0]
            rep.extend(r[1])
            for k, v in r[2].items():
                outcomes[k] = outcomes.get(k, 0) + v
    n_str = n
    T = fresh_table()
    maxlen = 7 if thorough else 6
    styles = 6
    jobs = []
    nseq = 0
    for entry in ENTRY:
        seqs = token_sequences(T, entry, TERMS, maxlen)
        nseq += len(seqs)
        for c in chunked(seqs, 64):
            jobs.append((entry, c, styles))
    for r in pmap(_seq_chunk, jobs):
        n += r[0]
        rep.extend(r[1])
        for k, v in r[2].items():
            outcomes[k] = outcomes.get(k, 0) + v
    rep.cov.update(
        {
            "evaluations": n,
            "distinct_nontrivial": n_str + nseq * styles * 2,
            "rule": f"(a) every string of length 1..{L} over a {len(ALPHABET)}-character alphabet x (Unit.parse, Quantity.parse); "
            f"(b) every viable token sequence up to {maxlen} tokens plus each first rejecting token, rendered in {styles} lexeme styles "
            "(ordinary, unknown symbols, huge exponents, 1e999, 4400-digit literals) with and without spaces; (c) all single-token "
            "mutations of accepted sequences of <= 5 tokens. Every generated text is distinct; all count as non-trivial (each is parsed)",
            "alphabet": ALPHABET,
            "char_string_parses": n_str,
            "token_sequences": nseq,
            "distinct_outcomes": dict(sorted(outcomes.items())),
            "samples": ["km/s²", "1e999 m", "5 zz", "m^99999999999", "%"],
            "exhaustive": True,
        }
    )
    rep.assumptions.append("strings longer than the bounds are not covered; all unit modules imported")


def replay(obj, kind=None):
    w = get_world()
    from measured.parsing import ParseError

    viols = []
    oc = check_text(w.m, ParseError, obj["entry"], obj["text"], viols)
    return bool(viols), f"{obj['entry']}.parse({short(obj['text'])!r}) -> {oc}; {[v[0] for v in viols]}"

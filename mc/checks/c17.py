"""C17 — parsing is total: any text yields a Unit/Quantity or ParseError/KeyError.

(a) every string up to length L over a 23-character alphabet (all lexer classes, registered
    symbols, and two characters no terminal accepts), through Unit.parse and Quantity.parse
    with every unit module imported;
(b) every viable token sequence up to length N (+ each first rejecting token) rendered with
    a menu of ordinary and extreme lexemes;
(c) every single-token mutation (delete / duplicate / swap adjacent) of the accepted ones.
Oracle: outcome class; determinism; registries unchanged after a rejection; magnitude type.
"""
import itertools
import math
import os
import re

from .. import SRC
from ..common import HarnessError, chunked, pmap, rotate
from ..lalr import norm_table, token_sequences
from ..world import get_world

ALPHABET = ["1", "m", "Å", "ₐ", "μ", ".", "-", "+", "e", "^", "²", "⁻", "/", "⋅", " ",
            "k", "s", "*", "(", ")", "9", "%", "é"]
ENTRY = ["unit", "quantity"]

FLOAT_RE = re.compile(r"[+-]?(?:[0-9]+[eE][+-]?[0-9]+|(?:[0-9]+\.[0-9]*|\.[0-9]+)(?:[eE][+-]?[0-9]+)?)")
INT_RE = re.compile(r"[+-]?[0-9]+")
WS = " \t\f\r\n"

LEXEMES = {
    "SIGNED_INT": ["5", "-0", "+7", "9" * 30, "0", "9" * 4400],
    "SIGNED_FLOAT": ["1.5", "1e999", "+.5", "-1e-999", "5.", "0.0"],
    "SYMBOL": ["m", "km", "zz", "Hz", "°C", "1", "in.", "kg"],
    "_MULTIPLY": ["*", "⋅"],
    "_DIVIDE": ["/"],
    "CARAT_EXPONENT": ["^2", "^-1", "^0", "^99999999999", "^+3", "^" + "1" * 4400],
    "SUPERSCRIPT_EXPONENT": ["²", "⁻¹", "⁰", "¹" * 50, "⁻⁰", "¹" * 4400],
}
TERMS = list(LEXEMES)
# (d) full product of lexemes per position (not in lockstep) for the short sequences: an SI-
# prefixed, an IEC-prefixed and an unknown symbol; small and 400-digit exponents of both
# signs (prefixes of different bases are combined in floating point, where 10**400 overflows)
MIX = {
    "SIGNED_INT": ["5", "-0", "9" * 400],
    "SIGNED_FLOAT": ["1.5", "1e999"],
    "SYMBOL": ["km", "KiB", "zz", "kB"],
    "_MULTIPLY": ["⋅"],
    "_DIVIDE": ["/"],
    "CARAT_EXPONENT": ["^2", "^" + "9" * 400, "^-" + "9" * 400, "^2" + "0" * 307, "^-2" + "0" * 307],
    "SUPERSCRIPT_EXPONENT": ["²", "⁹" * 400, "⁻" + "⁹" * 400, "²" + "⁰" * 307],
}


def reg_sizes(m):
    return (
        len(m.Unit._by_name), len(m.Unit._by_symbol), len(m.Prefix._by_name),
        len(m.Prefix._by_symbol), len(m.Dimension._by_name),
    )


def reg_keys(m):
    return (
        frozenset(m.Unit._by_name), frozenset(m.Unit._by_symbol), frozenset(m.Prefix._by_name),
        frozenset(m.Prefix._by_symbol), frozenset(m.Dimension._by_name),
    )


def expected_magnitude(text):
    t = text.lstrip(WS)
    f = FLOAT_RE.match(t)
    i = INT_RE.match(t)
    if f and (not i or f.end() > i.end()):
        return float(f.group(0))
    if i:
        try:
            return int(i.group(0))
        except ValueError:
            # more digits than the interpreter converts: written as an int all the same
            return TooLong
    return None


class TooLong:
    """Marker: the text is an integer literal too long for int(); an accepted quantity must
    still have an int magnitude (value not compared)."""


def parse_once(m, perr, entry, text):
    try:
        v = m.Unit.parse(text) if entry == "unit" else m.Quantity.parse(text)
    except perr:
        return "ParseError", None
    except KeyError:
        return "KeyError", None
    except BaseException as e:  # noqa
        return "escaped:" + type(e).__name__, e
    return "value", v


def short(text):
    return text if len(text) <= 60 else text[:25] + f"...<{len(text)} chars>..." + text[-10:]


def shape_key(text):
    """Input-side description for keys: long digit runs abbreviated."""
    return re.sub(r"([0-9¹⁰]{12,})", lambda mo: f"<{len(mo.group(1))} digits>", short(text))


def check_text(m, perr, entry, text, viols):
    before = reg_sizes(m)
    oc, v = parse_once(m, perr, entry, text)
    if oc.startswith("escaped"):
        viols.append((oc.replace(":", "_"), f"{entry}: {shape_key(text)}", f"{entry}.parse({short(text)!r}) raised {oc[8:]}: {v}", {"entry": entry, "text": text}))
        return oc
    if oc != "value":
        if reg_sizes(m) != before:
            viols.append(("rejection_changed_registries", f"{entry}: {shape_key(text)}", f"after rejecting {short(text)!r} the registries grew {before} -> {reg_sizes(m)}", {"entry": entry, "text": text}))
        return oc
    want = m.Unit if entry == "unit" else m.Quantity
    if not isinstance(v, want):
        viols.append(("wrong_result_type", f"{entry}: {shape_key(text)}", f"{type(v).__name__} returned", {"entry": entry, "text": text}))
        return oc
    oc2, v2 = parse_once(m, perr, entry, text)
    same = (v2 is v) if entry == "unit" else (oc2 == "value" and v2.unit is v.unit and type(v2.magnitude) is type(v.magnitude) and (v2.magnitude == v.magnitude))
    if oc2 != "value" or not same:
        viols.append(("not_deterministic", f"{entry}: {shape_key(text)}", f"second parse of {short(text)!r} gave {oc2} {v2!r} vs {v!r}", {"entry": entry, "text": text}))
    if entry == "quantity":
        mag = v.magnitude
        exp = expected_magnitude(text)
        if exp is TooLong:
            ok = type(mag) is int
        else:
            ok = type(mag) in (int, float) and exp is not None and type(mag) is type(exp) and (mag == exp or (isinstance(mag, float) and math.isnan(mag) and math.isnan(exp)))
        if not ok:
            viols.append(("magnitude_not_as_written", f"{entry}: {shape_key(text)}", f"{short(text)!r} -> magnitude {str(mag)[:40]!r} ({type(mag).__name__}), written {'an integer literal' if exp is TooLong else str(exp)[:40]!r}", {"entry": entry, "text": text}))
    return oc


def attribute(w, m, perr, texts, viols):
    """A batch of parses changed a registry's key set (sizes alone did not show it).  The
    property only forbids that for REJECTED inputs: re-run the batch one text at a time from
    the restored baseline, comparing full key sets around every rejected parse, and report
    the culprit (a replayable single input).  Changes made by accepted parses are not
    C17's business."""
    w.restore()
    for entry, text in texts:
        k0 = reg_keys(m)
        oc, _ = parse_once(m, perr, entry, text)
        if oc != "value" and reg_keys(m) != k0:
            viols.append(("rejection_changed_registries", f"{entry}: {shape_key(text)}",
                          f"rejecting {short(text)!r} changed the set of registered names/symbols", {"entry": entry, "text": text}))
            return
    w.restore()


class Hist:
    """Texts parsed so far in a chunk (the parser and its callbacks are long-lived objects, so
    an outcome may depend on what was parsed before): the first violation of a chunk carries
    the history, and its replay parses the history first."""

    def __init__(self):
        self.items = []

    def check(self, m, perr, entry, text, viols):
        before = len(viols)
        oc = check_text(m, perr, entry, text, viols)
        if len(viols) > before and not getattr(self, "given", False):
            self.given = True
            k, key, detail, rp = viols[before]
            viols[before] = (k, key, detail, dict(rp, history=list(self.items)))
        self.items.append([entry, text])
        return oc


def _string_chunk(args):
    firsts, length = args
    w = get_world()
    m = w.m
    from measured.parsing import ParseError

    viols = []
    outcomes = {}
    n = 0
    for f in firsts:
        w.restore()
        H = Hist()
        keys0 = reg_keys(m)
        rejected_any = False
        for rest in itertools.product(ALPHABET, repeat=length - 1):
            text = f + "".join(rest)
            for entry in ENTRY:
                n += 1
                oc = H.check(m, ParseError, entry, text, viols)
                outcomes[oc] = outcomes.get(oc, 0) + 1
        # full comparison per batch: accepted inputs may intern anonymous units, but no
        # parse may ever add or remove a name or a symbol
        if reg_keys(m) != keys0:
            attribute(w, m, ParseError, [(entry, f + "".join(rest)) for rest in itertools.product(ALPHABET, repeat=length - 1) for entry in ENTRY], viols)
    w.restore()
    return n, viols, outcomes


def render_all(seq, styles):
    out = []
    for k in range(styles):
        lex = [LEXEMES[t][k % len(LEXEMES[t])] for t in seq]
        out.append(("".join(lex), lex))
        out.append((" ".join(lex), lex))
    # extreme lexemes one position at a time
    return out


def _seq_chunk(args):
    entry, seqs, styles = args
    w = get_world()
    m = w.m
    from measured.parsing import ParseError

    viols = []
    outcomes = {}
    n = 0
    w.restore()
    H = Hist()
    keys0 = reg_keys(m)
    for seq, status in seqs:
        for text, lex in render_all(seq, styles):
            n += 1
            oc = H.check(m, ParseError, entry, text, viols)
            outcomes[oc] = outcomes.get(oc, 0) + 1
            if oc == "value" and len(lex) <= 5:
                # single-token mutations of an accepted sequence
                muts = []
                for i in range(len(lex)):
                    muts.append(lex[:i] + lex[i + 1:])
                    muts.append(lex[: i + 1] + lex[i:])
                    if i + 1 < len(lex):
                        muts.append(lex[:i] + [lex[i + 1], lex[i]] + lex[i + 2:])
                for mu in muts:
                    n += 1
                    oc2 = H.check(m, ParseError, entry, " ".join(mu), viols)
                    outcomes["mut:" + oc2] = outcomes.get("mut:" + oc2, 0) + 1
    if reg_keys(m) != keys0:
        attribute(w, m, ParseError, [(entry, text) for seq, status in seqs for text, lex in render_all(seq, styles)], viols)
    w.restore()
    return n, viols, outcomes


def _mix_chunk(args):
    entry, seqs = args
    w = get_world()
    m = w.m
    from measured.parsing import ParseError

    viols, outcomes, n = [], {}, 0
    w.restore()
    keys0 = reg_keys(m)
    for seq, status in seqs:
        H = Hist()
        for lex in itertools.product(*[MIX[t] for t in seq]):
            n += 1
            oc = H.check(m, ParseError, entry, " ".join(lex), viols)
            outcomes["mix:" + oc] = outcomes.get("mix:" + oc, 0) + 1
        if reg_keys(m) != keys0:
            attribute(w, m, ParseError, [(entry, " ".join(lex)) for lex in itertools.product(*[MIX[t] for t in seq])], viols)
        w.restore()
    return n, viols, outcomes


# "arbitrary text": characters no terminal accepts, of every kind the error path may look at -
# unnamed control characters, DEL, C1, private use, a noncharacter, a tag character, NBSP,
# look-alikes (MICRO SIGN, MIDDLE DOT), an astral symbol, a lone surrogate cannot be typed
WEIRD = ["\x00", "\x0b", "\x1f", "\x7f", "\x85", "\ue000", "\uffff", "\U000e0080", "\u00a0", "\u00b5", "\u00b7", "\U0001f600", ","]
WEIRD_CONTEXT = ["m", "5", " ", "/", "k", "^", "2"]


def _weird_chunk(chars):
    w = get_world()
    m = w.m
    from measured.parsing import ParseError

    viols, outcomes, n = [], {}, 0
    w.restore()
    H = Hist()
    for ch in chars:
        alphabet = WEIRD_CONTEXT + [ch]
        for length in (1, 2, 3):
            for tup in itertools.product(alphabet, repeat=length):
                if ch not in tup:
                    continue
                text = "".join(tup)
                for entry in ENTRY:
                    n += 1
                    oc = H.check(m, ParseError, entry, text, viols)
                    outcomes["weird:" + oc] = outcomes.get("weird:" + oc, 0) + 1
    w.restore()
    return n, viols, outcomes


def fresh_table():
    from lark.tools import build_lalr, lalr_argparser

    ns = lalr_argparser.parse_args(["--start", "unit", "--start", "quantity", os.path.join(SRC, "measured", "measured.lark")])
    fresh, _ = build_lalr(ns)
    ns.grammar_file.close()
    return norm_table(fresh.parser.parser._parse_table)


def run(rep, tier):
    thorough = tier == "thorough"
    w = get_world()
    L = 5 if thorough else 4
    n = 0
    outcomes = {}
    for length in range(1, L + 1):
        firsts = rotate(ALPHABET)
        for r in pmap(_string_chunk, [(c, length) for c in chunked(firsts, len(ALPHABET) * (4 if length >= 4 else 1))] if length >= 4 else [([f], length) for f in firsts]):
            n += r[0]
            rep.extend(r[1])
            for k, v in r[2].items():
                outcomes[k] = outcomes.get(k, 0) + v
    n_str = n
    T = fresh_table()
    maxlen = 7 if thorough else 6
    styles = 6
    jobs = []
    nseq = 0
    for entry in ENTRY:
        seqs = token_sequences(T, entry, TERMS, maxlen)
        nseq += len(seqs)
        for c in chunked(seqs, 64):
            jobs.append((entry, c, styles))
    for r in pmap(_seq_chunk, jobs):
        n += r[0]
        rep.extend(r[1])
        for k, v in r[2].items():
            outcomes[k] = outcomes.get(k, 0) + v
    n_weird = 0
    for r in pmap(_weird_chunk, [[c] for c in WEIRD]):
        n += r[0]
        n_weird += r[0]
        rep.extend(r[1])
        for k, v in r[2].items():
            outcomes[k] = outcomes.get(k, 0) + v
    mixlen = 6 if thorough else 5
    mjobs = []
    n_mix_seq = 0
    for entry in ENTRY:
        seqs = [s_ for s_ in token_sequences(T, entry, TERMS, mixlen)]
        n_mix_seq += len(seqs)
        for c in chunked(seqs, 8):
            mjobs.append((entry, c))
    n_mix = 0
    for r in pmap(_mix_chunk, mjobs):
        n += r[0]
        n_mix += r[0]
        rep.extend(r[1])
        for k, v in r[2].items():
            outcomes[k] = outcomes.get(k, 0) + v
    rep.cov.update(
        {
            "evaluations": n,
            "distinct_nontrivial": n_str + nseq * styles * 2 + n_mix + n_weird,
            "rule": f"(a) every string of length 1..{L} over a {len(ALPHABET)}-character alphabet x (Unit.parse, Quantity.parse); "
            f"(b) every viable token sequence up to {maxlen} tokens plus each first rejecting token, rendered in {styles} lexeme styles "
            "(ordinary, unknown symbols, huge exponents, 1e999, 4400-digit literals) with and without spaces; (c) all single-token "
            "mutations of accepted sequences of <= 5 tokens; (d) for every token sequence up to {mixlen} tokens the full product of "
            "lexemes per position (SI-prefixed / IEC-prefixed / byte-based / unknown symbols x small and 400-digit exponents of both signs). Every generated text is distinct; all count as non-trivial (each is parsed)",
            "alphabet": ALPHABET,
            "char_string_parses": n_str,
            "token_sequences": nseq,
            "mixed_lexeme_parses": n_mix,
            "unusual_character_parses": n_weird,
            "unusual_characters": [f"U+{ord(c):04X}" for c in WEIRD],
            "distinct_outcomes": dict(sorted(outcomes.items())),
            "samples": ["km/s²", "1e999 m", "5 zz", "m^99999999999", "%"],
            "exhaustive": True,
        }
    )
    rep.assumptions.append("strings longer than the bounds are not covered; all unit modules imported")


def replay(obj, kind=None):
    w = get_world()
    from measured.parsing import ParseError

    viols = []
    for entry, text in obj.get("history") or []:
        parse_once(w.m, ParseError, entry, text)
    oc = check_text(w.m, ParseError, obj["entry"], obj["text"], viols)
    return bool(viols), f"{obj['entry']}.parse({short(obj['text'])!r}) -> {oc}; {[v[0] for v in viols]}"

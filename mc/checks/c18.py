"""C18 — levels and quantities interconvert by the logarithmic definition.

Complete product logarithm family (bel, decibel, neper, octave, semitone, centi-bel,
milli-neper, deca-bel, kibi-octave) x reference quantity (power and root-power dimensions,
prefixed and non-SI units, non-unit magnitudes) x level magnitudes in [-200, 200] x the unit
the quantity is written in x magnitude type, against the closed form

      level = (k / prefix) * log_base(quantity / reference),   k = 2 for root-power references

evaluated in 60-digit decimal arithmetic from SI values of the size oracle; strict
monotonicity over the sorted quantities; both round trips; level ~ quantity comparisons.
"""
from decimal import Decimal, getcontext

from ..common import HarnessError, chunked, pmap, rotate
from ..convspace import mag
from ..models import D
from ..world import get_world
from . import c04

getcontext().prec = 60
REL = Decimal("1e-9")
LEVELS = [-200, -100, -20, -3, -0.5, 0, 0.5, 3, 10, 20, 100, 200, Decimal("6.5"), Decimal("-12")]

# (name, base as the definition states it, prefix spec (base, exponent) or None)
LOGS = [
    ("bel", "10", None),
    ("decibel", "10", (10, -1)),
    ("neper", "e", None),
    ("octave", "2", None),
    ("semitone", "2", (12, -1)),
    ("centibel", "10", (10, -2)),
    ("millineper", "e", (10, -3)),
    ("decabel", "10", (10, 1)),
    ("kibioctave", "2", (2, 10)),
    # families the library does not ship: "any base"
    ("base3", "3", None),
    ("centibase16", "16", (10, -2)),
    ("base1.5", "1.5", None),
]

# (label, magnitude, prefix name, unit spec factors, root-power?, other units the quantity is written in)
REFS = [
    ("1 W", 1, None, (("watt", 1),), False, [(None, (("horsepower", 1),)), ("kilo", (("watt", 1),)), (None, (("joule", 1), ("hour", -1)))]),
    ("1 mW", 1, "milli", (("watt", 1),), False, [(None, (("watt", 1),)), (None, (("metric horsepower", 1),))]),
    ("1 hp", 1, None, (("horsepower", 1),), False, [(None, (("watt", 1),)), ("mega", (("watt", 1),))]),
    ("1 pW/m^2", 1, "pico", (("watt", 1), ("meter", -2)), False, [(None, (("watt", 1), ("meter", -2))), (None, (("watt", 1), ("foot", -2)))]),
    ("2.5 kW", 2.5, "kilo", (("watt", 1),), False, [(None, (("watt", 1),)), (None, (("horsepower", 1),))]),
    ("3 J", 3, None, (("joule", 1),), False, [(None, (("calorie", 1),)), ("kilo", (("joule", 1),))]),
    ("20 uPa", 20, "micro", (("pascal", 1),), True, [(None, (("pascal", 1),)), (None, (("pounds per square inch", 1),))]),
    ("1 psi", 1, None, (("pounds per square inch", 1),), True, [(None, (("pascal", 1),)), ("kilo", (("pascal", 1),))]),
    ("1 V", 1, None, (("volt", 1),), True, [("milli", (("volt", 1),)), ("kilo", (("volt", 1),))]),
    ("1 A", 1, None, (("ampere", 1),), True, [("milli", (("ampere", 1),)), (None, (("coulomb", 1), ("second", -1)))]),
    ("1 m/s", 1, None, (("meter", 1), ("second", -1)), True, [(None, (("knot", 1),)), ("kilo", (("meter", 1), ("hour", -1))), (None, (("mile", 1), ("hour", -1)))]),
    ("1 V/m", 1, None, (("volt", 1), ("meter", -1)), True, [(None, (("volt", 1), ("foot", -1)))]),
    ("440 Hz", 440, None, (("hertz", 1),), False, [("kilo", (("hertz", 1),)), (None, (("second", -1),))]),
    ("1 m", 1, None, (("meter", 1),), False, [(None, (("foot", 1),)), ("kilo", (("meter", 1),))]),
]


def ln(x):
    return Decimal(x).ln()


def base_value(b):
    if b == "e":
        return Decimal(1).exp()
    return Decimal(b)


def root_power_model(w, dim):
    """The documented root-power (field) quantities, rebuilt from base dimensions:
    voltage, current, pressure, electric field strength, speed, charge density (line,
    surface, volume)."""
    m = w.m
    L, T, M, Q = m.Length, m.Time, m.Mass, m.Charge
    potential = M * L**2 / T**2 / Q
    field = {potential, Q / T, M / L / T**2, potential / L, L / T, Q / L, Q / L**2, Q / L**3}
    return dim in field


def make_log(w, spec):
    name, base, pre = spec
    m = w.m
    fam = {"10": m.Bel, "e": m.Neper, "2": m.Octave}.get(base)
    if fam is None:
        fam = m.Logarithm(base=float(base) if "." in base else int(base))
    if name == "decibel":
        return m.Decibel
    if name == "semitone":
        import measured.music as music

        return music.Semitone
    if pre is None:
        return fam
    return m.Prefix(*pre) * fam


def _chunk(items):
    sp = c04.space()
    w = sp.w
    m_ = w.m
    out = {"n": 0, "nt": set(), "viols": [], "outcomes": {}}

    def bump(k):
        out["outcomes"][k] = out["outcomes"].get(k, 0) + 1

    for li, ri in items:
        w.restore()
        spec = LOGS[li]
        label, rmag, rpre, rfac, is_root, others = REFS[ri]
        log = make_log(w, spec)
        runit = sp.unit((rpre, rfac))
        ref = rmag * runit
        lu = log[ref]
        key = f"{spec[0]}[{label}]"
        rp = {"log": li, "ref": ri}

        def bad(kind, detail, extra=None):
            out["viols"].append((kind, key, detail, dict(rp, **(extra or {}))))

        k = 2 if is_root else 1
        if root_power_model(w, runit.dimension) != is_root:
            raise HarnessError(f"reference table and root-power model disagree for {label}")
        b = base_value(spec[1])
        pv = Decimal(1) if spec[2] is None else Decimal(spec[2][0]) ** spec[2][1]
        ref_si = mag(rmag) * sp.oracle.unit_size(runit)
        out["n"] += 1
        if lu.power_ratio != k:
            bad("wrong_power_ratio", f"{lu}.power_ratio is {lu.power_ratio}; {runit.dimension} is a {'root-power' if is_root else 'power'} quantity")
        if log.base != float(b) and abs(Decimal(repr(float(log.base))) - b) > Decimal("1e-15"):
            bad("wrong_base", f"{log!r}.base = {log.base!r}")
        if abs(mag(log.prefix.quantify()) - pv) > Decimal("1e-15") * pv:
            bad("wrong_prefix", f"{log!r}.prefix = {log.prefix!r}, expected value {pv}")
        write_in = [(rpre, rfac)] + list(others)
        mono = {}  # written-unit index -> [(si value, level)]
        for L in LEVELS:
            # the quantity this level denotes, by the definition
            exponent = mag(L) * pv / k
            log10 = exponent * ln(b) / ln(10)
            if abs(log10) > 290:
                bump("clipped (outside float range)")
                continue
            ratio = (exponent * ln(b)).exp()
            q_si = ref_si * ratio
            for ui, us in enumerate(write_in):
                u = sp.unit(us)
                su = sp.oracle.unit_size(u)
                for typ in ("float", "Decimal") if not isinstance(L, Decimal) else ("Decimal",):
                    x = q_si / su
                    if abs(x) > Decimal("1e300") or abs(x) < Decimal("1e-300"):
                        bump("clipped (outside float range)")
                        continue
                    qm = float(x) if typ == "float" else Decimal(repr(float(x)))
                    q = qm * u
                    q_written = mag(qm) * su  # what was actually written, rounding of the magnitude included
                    want = Decimal(k) / pv * (ln(q_written / ref_si) / ln(b))
                    # written in the reference's own unit the ratio is exact up to rounding; in
                    # another unit it goes through shipped definitions (1e-5 per degree, as in C04)
                    rtol = REL if ui == 0 else Decimal("1e-5") * sp.degree(us, (rpre, rfac))
                    tol = REL * max(abs(want), 1) + (Decimal(k) / pv) * rtol / ln(b)
                    ex = {"L": repr(L), "u": ui, "typ": typ}
                    out["n"] += 1
                    try:
                        lv = lu.level(q)
                    except w.conv.ConversionNotFound:
                        bump("level: ConversionNotFound")
                        continue
                    except Exception as e:  # noqa
                        bad("level_raised", f"{lu}.level({q}) raised {type(e).__name__}: {e}", ex)
                        continue
                    bump("level: value")
                    out["nt"].add((li, ri, repr(L), ui, typ))
                    if lv.unit is not lu:
                        bad("wrong_level_unit", f"{lu}.level({q}) came back in {lv.unit}", ex)
                    got = mag(lv.magnitude)
                    if not got.is_finite() or abs(got - want) > tol:
                        bad("wrong_level", f"{lu}.level({q}) = {lv.magnitude!r}; (k/prefix)*log_base(q/ref) with k={k}, prefix={pv}, base={spec[1]} gives {float(want)!r}", ex)
                        continue
                    mono.setdefault((ui, typ), []).append((q_written, got, repr(L)))
                    # same through Quantity.level
                    lv2 = q.level(lu)
                    if mag(lv2.magnitude) != got:
                        bad("quantity_level_differs", f"({q}).level({lu}) = {lv2.magnitude!r} but {lu}.level(q) = {lv.magnitude!r}", ex)
                    # quantity -> level -> quantity
                    out["n"] += 1
                    try:
                        back = lv.quantify()
                        back_si = mag(back.magnitude) * sp.oracle.unit_size(back.unit)
                        if abs(back_si - q_written) > (50 * REL * max(1, abs(want) * pv / k) + (0 if ui == 0 else rtol)) * abs(q_written):
                            bad("quantity_round_trip", f"{q} -> {lv} -> {back}: SI {float(back_si)!r} vs {float(q_written)!r}", ex)
                    except Exception as e:  # noqa
                        bad("quantify_raised", f"({lv}).quantify() raised {type(e).__name__}: {e}", ex)
            # level -> quantity (by the definition) -> level
            for Lm in (L,) if isinstance(L, Decimal) else (L, Decimal(str(L))):
                ex = {"L": repr(Lm), "what": "level"}
                out["n"] += 1
                lvl = Lm * lu
                try:
                    qq = lvl.quantify()
                except Exception as e:  # noqa
                    bad("quantify_raised", f"({lvl}).quantify() raised {type(e).__name__}: {e}", ex)
                    continue
                bump("quantify: value")
                out["nt"].add((li, ri, repr(Lm), "level"))
                got_si = mag(qq.magnitude) * sp.oracle.unit_size(qq.unit)
                cond = max(1, abs(exponent * ln(b)))  # relative error of exp() grows with its argument
                if abs(got_si - q_si) > REL * cond * abs(q_si):
                    bad("wrong_quantity", f"({lvl}).quantify() = {qq}: SI value {float(got_si)!r}; reference * base**(level*prefix/k) = {float(q_si)!r}", ex)
                    continue
                try:
                    again = lu.level(qq)
                    if abs(mag(again.magnitude) - mag(Lm)) > REL * max(1, abs(mag(Lm))) * 10:
                        bad("level_round_trip", f"{lvl} -> {qq} -> {again}", ex)
                except Exception as e:  # noqa
                    bad("level_raised", f"{lu}.level({qq}) raised {type(e).__name__}: {e}", ex)
                # the level compares equal to the quantity it denotes, and not to another
                out["n"] += 1
                approx = m_.approximately
                try:
                    # the denoted quantity, written independently in the reference's unit
                    xq = q_si / sp.oracle.unit_size(runit)
                    if Decimal("1e-300") < abs(xq) < Decimal("1e300"):
                        dq = float(xq) * runit
                        far = (float(xq) * 1.01) * runit
                        e1, e2 = (dq == approx(lvl)), (approx(lvl) == dq)
                        f1, f2 = (far == approx(lvl)), (approx(lvl) == far)
                        if not (e1 and e2) and abs(exponent * ln(b)) < 50:
                            bad("level_not_equal_to_its_quantity", f"{dq} == approximately({lvl}) is {e1}, reversed {e2}", ex)
                        if (f1 or f2) and abs(exponent * ln(b)) < 50:
                            bad("level_equal_to_other_quantity", f"{far} == approximately({lvl}) is {f1}, reversed {f2}", ex)
                        g1 = (lvl == qq) and (qq == lvl)
                        if not g1:
                            bad("level_not_equal_to_own_quantify", f"{lvl} == its own quantify() {qq} is False", ex)
                except Exception as e:  # noqa
                    bad("comparison_raised", f"comparing {lvl}: {type(e).__name__}: {e}", ex)
        for (ui, typ), pts in mono.items():
            pts.sort()
            for (qa, la, La), (qb, lb, Lb) in zip(pts, pts[1:]):
                out["n"] += 1
                if qb > qa * (1 + Decimal("1e-6")) and not lb > la:
                    bad("not_monotone", f"level({float(qa)!r}) = {float(la)!r} but level({float(qb)!r}) = {float(lb)!r} (levels {La}, {Lb})", {"L": La, "u": ui, "typ": typ})
    w.restore()
    out["nt"] = len(out["nt"])
    return out


def _cross_chunk(jobs):
    """Several logarithmic units with different references of one dimension, asked for the
    levels of quantities written in the SAME unit objects, in every order of first use and
    without restoring in between: a level may depend on its own unit's reference only, never
    on which other logarithmic unit was used before."""
    sp = c04.space()
    w = sp.w
    out = {"n": 0, "nt": set(), "viols": [], "outcomes": {}}
    for group, lis, perm in jobs:
        w.restore()
        qunits = [sp.unit((REFS[group[0]][2], REFS[group[0]][3]))] + [sp.unit(o) for o in REFS[group[0]][5][:2]]
        lus = {}
        for ri in group:
            for li in lis:
                label, rmag, rpre, rfac, is_root, _ = REFS[ri]
                lus[(li, ri)] = make_log(w, LOGS[li])[rmag * sp.unit((rpre, rfac))]
        for li, ri in perm:
            spec = LOGS[li]
            label, rmag, rpre, rfac, is_root, _ = REFS[ri]
            lu = lus[(li, ri)]
            k = 2 if is_root else 1
            b = base_value(spec[1])
            pv = Decimal(1) if spec[2] is None else Decimal(spec[2][0]) ** spec[2][1]
            ref_si = mag(rmag) * sp.oracle.unit_size(sp.unit((rpre, rfac)))
            for qu in qunits:
                for qm in (5, 0.25):
                    q = qm * qu
                    out["n"] += 1
                    want = Decimal(k) / pv * (ln(mag(qm) * sp.oracle.unit_size(qu) / ref_si) / ln(b))
                    try:
                        got = mag(lu.level(q).magnitude)
                    except Exception as e:  # noqa
                        out["outcomes"]["cross: raised"] = out["outcomes"].get("cross: raised", 0) + 1
                        continue
                    out["outcomes"]["cross: value"] = out["outcomes"].get("cross: value", 0) + 1
                    out["nt"].add((tuple(perm), li, ri, str(qu), qm))
                    tol = REL * max(abs(want), 1) + (Decimal(k) / pv) * Decimal("1e-5") * 3 / ln(b)
                    if abs(got - want) > tol:
                        order = [f"{LOGS[a][0]}[{REFS[b_][0]}]" for a, b_ in perm]
                        out["viols"].append((
                            "level_depends_on_other_logarithmic_units", f"{spec[0]}[{label}]",
                            f"used in the order {order}: {lu}.level({q}) = {float(got)!r}, closed form {float(want)!r}",
                            {"cross": [list(group), list(lis), [list(x) for x in perm]]}))
    w.restore()
    out["nt"] = len(out["nt"])
    return out


def cross_jobs(thorough):
    import itertools

    jobs = []
    groups = [(0, 1, 2, 4), (6, 7)] if thorough else [(0, 1, 4), (6, 7)]
    families = [(1,), (2,), (1, 2)] if thorough else [(1,), (1, 2)]
    for group in groups:
        for lis in families:
            members = [(li, ri) for ri in group for li in lis]
            if len(members) > 4:
                members = members[:4]
            for perm in itertools.permutations(members):
                jobs.append((group, lis, perm))
    return jobs


def run(rep, tier):
    sp = c04.space()
    need = {n for r in REFS for n, _ in r[3]} | {n for r in REFS for o in r[5] for n, _ in o[1]}
    missing = [n for n in need if n not in sp.by_name and n not in sp.w.m.Unit._by_name]
    if missing:
        raise HarnessError(f"units not available: {missing}")
    items = rotate([(li, ri) for li in range(len(LOGS)) for ri in range(len(REFS))])
    res = pmap(_chunk, chunked(items, 32))
    cj = cross_jobs(tier == "thorough")
    res += pmap(_cross_chunk, chunked(cj, 8))
    n = nt = 0
    outcomes = {}
    for r in res:
        rep.extend(r["viols"])
        n += r["n"]
        nt += r["nt"]
        for k, v in r["outcomes"].items():
            outcomes[k] = outcomes.get(k, 0) + v
    rep.cov.update(
        {
            "evaluations": n,
            "distinct_nontrivial": nt,
            "rule": "complete product logarithm family x reference x level magnitude x unit the quantity is written in x magnitude type; "
            "a case is non-trivial when level()/quantify() returned and was compared with the closed form; levels whose ratio leaves the float range are clipped and counted",
            "logarithms": [l[0] for l in LOGS],
            "references": [r[0] for r in REFS],
            "levels": [repr(x) for x in LEVELS],
            "cross_unit_orders": len(cj),
            "distinct_outcomes": outcomes,
            "samples": [f"{LOGS[a][0]}[{REFS[b][0]}]" for a, b in items[:5]],
            "exhaustive": True,
        }
    )
    rep.assumptions += [
        "closed form evaluated with Decimal ln/exp at 60 digits; quantities' SI values from the size oracle; tolerance 1e-9 (scaled by the conditioning of exp for large levels)",
        "root-power classification rebuilt from base dimensions (voltage, current, pressure, field strength, speed, charge densities)",
    ]


def replay(obj, kind=None):
    if "cross" in obj:
        group, lis, perm = obj["cross"]
        r = _cross_chunk([(tuple(group), tuple(lis), [tuple(x) for x in perm])])
        return (True, r["viols"][0][2]) if r["viols"] else (False, "levels independent of the order of use")
    r = _chunk([(obj["log"], obj["ref"])])
    hits = [v for v in r["viols"] if (kind is None or v[0] == kind) and all(v[3].get(k) == obj.get(k) for k in ("L", "u", "typ", "what") if k in obj)]
    return (True, hits[0][2]) if hits else (False, "agrees with the closed form")

"""C19 — declared names/symbols bind faithfully; failed definitions change nothing.

Part A: HistoryExplorer over anonymous construction / naming / fault-menu events for the
        three sorts; invariants (B) binding, (U) uniqueness, (A) atomicity at every state.
Part S: the same (U)/(B) invariants on the shipped registries as they are after import.
Part I: shipped declarations under every ordered pair of first-imported unit modules,
        each in a fresh interpreter; the final name/symbol -> structure maps must agree.
"""
import itertools
import json

from ..common import HarnessError, digest, pmap, run_py
from ..explore import HistoryExplorer, Model
from ..world import get_world

MODULES = [
    "acoustics", "apocrypha", "astronomical", "avoirdupois", "computing", "electronics",
    "energy", "eu", "fff", "iec", "iso", "metric", "music", "natural", "si", "troy", "us",
]

# event name -> (sort, description); executed by C19Model.apply
EVENTS = [
    # anonymous construction of structurally fixed objects
    "anon_prefix", "anon_unit", "anon_dim",
    # naming
    "name_prefix", "name_unit", "name_dim", "define_unit", "alias_unit", "define_dim",
    # fault menu
    "define_dup_name", "define_dup_symbol", "define_space_symbol",
    "define_dupname_freshsym", "derive_dup_name", "derive_dup_symbol", "derive_space_symbol",
    "alias_dup_name", "alias_dup_symbol", "alias_space_symbol", "alias_dup_symbol_only",
    "dim_derive_dup_name", "dim_define_dup_name", "dim_define_dup_symbol",
    "prefix_dup_name", "prefix_dup_symbol",
    # the same faults on the structurally fixed objects, i.e. naming something that may already
    # exist anonymously with a name or symbol that belongs to someone else
    "name_prefix_dup_name", "name_prefix_dup_symbol", "name_dim_dup_name",
    # a text that reads as prefix + unit ("dam" = deca-metre) is looked up, and then a unit is
    # declared with exactly that symbol: the declaration must win from then on
    "lookup_dam", "define_dam",
    # scales (a unit plus a zero point): valid, zero point of another dimension, taken symbol
    "scale_define", "scale_wrong_dimension", "scale_dup_symbol",
    # names of DERIVED dimensions are taken too; symbols spelled with compatibility characters
    # (MICRO SIGN, OHM SIGN, ANGSTROM SIGN) must be looked up exactly as they were declared
    "dim_define_dup_derived_name", "dim_derive_dup_derived_name",
    "define_compat_symbol", "alias_compat_symbol", "name_prefix_compat_symbol",
]
QUICK_EVENTS = EVENTS


def tables(w):
    """Registries and per-object reports, name-keyed: the state the property talks about."""
    m = w.m
    t = {}
    t["U.by_name"] = {n: repr(w.ukey(u)) for n, u in m.Unit._by_name.items()}
    t["U.by_symbol"] = {n: repr(w.ukey(u)) for n, u in m.Unit._by_symbol.items()}
    t["U.reports"] = sorted(
        (repr(w.ukey(u)), tuple(u.names), tuple(u.symbols), bool(getattr(u, "_initialized", True)))
        for u in m.Unit._known.values()
    )
    t["U.base"] = sorted(repr(w.ukey(u)) for u in m.Unit._base)
    t["P.by_name"] = {n: (p.base, p.exponent) for n, p in m.Prefix._by_name.items()}
    t["P.by_symbol"] = {n: (p.base, p.exponent) for n, p in m.Prefix._by_symbol.items()}
    t["P.reports"] = sorted((k, p.name, p.symbol) for k, p in m.Prefix._known.items())
    t["D.by_name"] = {n: tuple(d.exponents) for n, d in m.Dimension._by_name.items()}
    t["D.reports"] = sorted((tuple(k), d.name, d.symbol) for k, d in m.Dimension._known.items())
    t["D.fundamental"] = [tuple(d.exponents) for d in m.Dimension._fundamental]
    return t


def uniqueness(w):
    """(U): set of discrepancy descriptions (strings)."""
    m = w.m
    out = set()
    for sort, cls, has_sym, multi in (("unit", m.Unit, True, True), ("prefix", m.Prefix, True, False), ("dimension", m.Dimension, False, False)):
        objs = list(cls._known.values())
        seen_n, seen_s = {}, {}
        for o in objs:
            names = list(o.names) if multi else ([o.name] if o.name else [])
            syms = list(o.symbols) if multi else ([o.symbol] if (has_sym and o.symbol) else [])
            for n in names:
                if n in seen_n and seen_n[n] is not o:
                    out.add(f"{sort} name {n!r} reported by two objects")
                seen_n[n] = o
                if cls._by_name.get(n) is not o:
                    out.add(f"{sort} {n!r} reports a name the registry does not map to it")
            for s in syms:
                if s in seen_s and seen_s[s] is not o:
                    out.add(f"{sort} symbol {s!r} reported by two objects")
                seen_s[s] = o
                if cls._by_symbol.get(s) is not o:
                    out.add(f"{sort} symbol {s!r} reported by an object the registry does not map to it")
        for n, o in cls._by_name.items():
            names = list(o.names) if multi else [o.name]
            if n not in names:
                out.add(f"{sort} registry name {n!r} maps to an object that does not report it")
        if has_sym:
            for s, o in cls._by_symbol.items():
                syms = list(o.symbols) if multi else [o.symbol]
                if s not in syms:
                    out.add(f"{sort} registry symbol {s!r} maps to an object that does not report it")
    return out


class Ctx:
    pass


class C19Model(Model):
    def __init__(self, events=EVENTS):
        self.evnames = list(events)
        self.tag = None

    def init(self, w):
        c = Ctx()
        c.w = w
        c.bound = {}  # (sort, 'name'|'symbol', text) -> structure key, for successful declarations
        c.done = set()
        c.base_u = _base_uniq(w)
        c.last = None
        return c

    def events(self, c):
        return [[e] for e in self.evnames if not (e in c.done and e in ONCE)]

    # --- helpers building the structurally fixed objects
    def _objs(self, c):
        m = c.w.m
        from measured.si import Meter, Second

        return m, Meter, Second

    def apply(self, c, ev):
        w = c.w
        m, Meter, Second = self._objs(c)
        e = ev[0]
        # argument expressions are evaluated BEFORE the call they are passed to; interning
        # the anonymous operands is not an effect of the (possibly failing) call itself
        if e in ("name_unit", "derive_dup_name", "derive_dup_symbol", "derive_space_symbol"):
            arg_unit = Meter * Second**5
        if e in ("name_dim", "dim_derive_dup_name", "name_dim_dup_name", "dim_derive_dup_derived_name"):
            arg_dim = m.Length**7
        t_before = tables(w)
        before = digest(t_before)
        decl = None  # (sort, name, symbol, structure-thunk) a successful call should bind
        try:
            if e == "anon_prefix":
                m.Prefix(7, 2)
            elif e == "anon_unit":
                Meter * Second**5
            elif e == "anon_dim":
                m.Length**7
            elif e == "name_prefix":
                p = m.Prefix(7, 2, name="septi", symbol="sp")
                decl = ("prefix", "septi", "sp", p)
            elif e == "name_unit":
                u = m.Unit.derive(arg_unit, "verif thing", "vth")
                decl = ("unit", "verif thing", "vth", u)
            elif e == "name_dim":
                d = m.Dimension.derive(arg_dim, "hyperlength", "L7")
                decl = ("dimension", "hyperlength", None, d)
            elif e == "define_unit":
                u = m.Unit.define(m.Length, "verif fresh", "vfr")
                decl = ("unit", "verif fresh", "vfr", u)
            elif e == "alias_unit":
                Meter.alias(name="verif metre", symbol="vme")
                decl = ("unit", "verif metre", "vme", Meter)
            elif e == "define_dim":
                d = m.Dimension.define("verif flavor", "Fl")
                decl = ("dimension", "verif flavor", None, d)
            elif e == "define_dup_name":
                m.Unit.define(m.Length, "meter", "vzz")
            elif e == "define_dup_symbol":
                m.Unit.define(m.Length, "verif zz", "m")
            elif e == "define_space_symbol":
                m.Unit.define(m.Length, "verif spacey", "has space")
            elif e == "define_dupname_freshsym":
                m.Unit.define(m.Time, "second", "vz2")
            elif e == "derive_dup_name":
                m.Unit.derive(arg_unit, "second", "vq1")
            elif e == "derive_dup_symbol":
                m.Unit.derive(arg_unit, "verif q2", "s")
            elif e == "derive_space_symbol":
                m.Unit.derive(arg_unit, "verif q3", "q 3")
            elif e == "alias_dup_name":
                Meter.alias(name="second", symbol="vq4")
            elif e == "alias_dup_symbol":
                Meter.alias(name="verif m2", symbol="s")
            elif e == "alias_space_symbol":
                Meter.alias(name="verif m3", symbol="the metre")
            elif e == "alias_dup_symbol_only":
                Meter.alias(symbol="s")
            elif e == "dim_derive_dup_name":
                m.Dimension.derive(arg_dim, "length")
            elif e == "dim_define_dup_name":
                m.Dimension.define("length", "Lx")
            elif e == "dim_define_dup_symbol":
                m.Dimension.define("verif other", "L")
            elif e == "prefix_dup_name":
                m.Prefix(7, 3, name="kilo", symbol="vk")
            elif e == "prefix_dup_symbol":
                m.Prefix(7, 4, name="verif p4", symbol="k")
            elif e == "lookup_dam":
                try:
                    m.Unit.resolve_symbol("dam")
                    m.Unit.parse("dam^2")
                    m.Quantity.parse("3 dam")
                except KeyError:
                    pass
            elif e == "define_dam":
                u = m.Unit.define(m.Length, "verif dam", "dam")
                decl = ("unit", "verif dam", "dam", u)
            elif e == "scale_define":
                from measured.si import Kelvin

                u = m.Temperature.scale(10 * Kelvin, "verif reaumur", "vRe")
                decl = ("unit", "verif reaumur", "vRe", u)
            elif e == "scale_wrong_dimension":
                u = m.Temperature.scale(5 * Meter, "verif odd scale", "vOd")
                decl = ("unit", "verif odd scale", "vOd", u)
            elif e == "scale_dup_symbol":
                from measured.si import Kelvin

                m.Temperature.scale(3 * Kelvin, "verif scale3", "K")
            elif e == "dim_define_dup_derived_name":
                m.Dimension.define("area", "Zz")
            elif e == "dim_derive_dup_derived_name":
                m.Dimension.derive(arg_dim, "area")
            elif e == "define_compat_symbol":
                u = m.Unit.define(m.Length, "verif microinch", "\u00b5in.")
                decl = ("unit", "verif microinch", "\u00b5in.", u)
            elif e == "alias_compat_symbol":
                Second.alias(name="verif ohmish", symbol="\u2126s")
                decl = ("unit", "verif ohmish", "\u2126s", Second)
            elif e == "name_prefix_compat_symbol":
                p = m.Prefix(7, 6, name="verif mu", symbol="\u00b5\u00b5")
                decl = ("prefix", "verif mu", "\u00b5\u00b5", p)
            elif e == "name_prefix_dup_name":
                m.Prefix(7, 2, name="kilo", symbol="vk2")
            elif e == "name_prefix_dup_symbol":
                m.Prefix(7, 2, name="verif p5", symbol="k")
            elif e == "name_dim_dup_name":
                m.Dimension.derive(arg_dim, "time")
            else:
                raise HarnessError(e)
            outcome = "returned"
        except HarnessError:
            raise
        except Exception as ex:  # noqa
            outcome = "raised:" + type(ex).__name__
        c.done.add(e)
        t_after = tables(w)
        after = digest(t_after)
        c.diff = describe_diff(t_before, t_after) if before != after else ""
        c.last = (e, outcome, before, after)
        if outcome == "returned" and decl:
            sort, name, sym, obj = decl
            c.bound[(sort, "name", name)] = obj
            if sym:
                c.bound[(sort, "symbol", sym)] = obj
        return (outcome,)

    def invariant(self, c, hist, ev, obs):
        w = c.w
        m = w.m
        out = []
        e, outcome, before, after = c.last
        # (A) atomicity
        if outcome.startswith("raised") and before != after:
            out.append(
                ("failed_call_changed_registries", f"{e}",
                 f"history {[h[0] for h in hist] + [e]}: {e} {outcome} but the registries differ from before the call: "
                 f"{c.diff}")
            )
        # (U) uniqueness (only what is new relative to the shipped state)
        for d in sorted(uniqueness(w) - c.base_u)[:3]:
            out.append(("name_or_symbol_not_unique", f"{e}: {d}", f"history {[h[0] for h in hist] + [e]}: {d}"))
        # (B) binding of every successful declaration so far
        cls = {"unit": m.Unit, "prefix": m.Prefix, "dimension": m.Dimension}
        for (sort, what, text), obj in c.bound.items():
            K = cls[sort]
            reg = K._by_name if what == "name" else getattr(K, "_by_symbol", {})
            got = reg.get(text)
            if sort == "unit":
                reports = text in (obj.names if what == "name" else obj.symbols)
            else:
                reports = (obj.name if what == "name" else obj.symbol) == text
            ok = got is obj and reports
            if ok and sort == "unit" and what == "symbol":
                try:
                    ok = m.Unit.resolve_symbol(text) is obj
                except Exception:
                    ok = False
                if ok:
                    # the property observes resolve_symbol()/named(); through the parser the
                    # symbol must not come back as something else, but a symbol the lexer has
                    # no character class for (MICRO SIGN, OHM SIGN) is C13/C17 territory
                    from measured.parsing import ParseError

                    try:
                        ok = m.Unit.parse(text) is obj
                    except ParseError:
                        ok = True
                    except Exception:
                        ok = False
            if ok and sort == "unit" and what == "name":
                try:
                    ok = m.Unit.named(text) is obj
                except Exception:  # noqa
                    ok = False
            try:
                if ok and sort == "prefix" and what == "symbol":
                    ok = m.Prefix.resolve_symbol(text) is obj
                if ok and sort == "dimension":
                    ok = m.Dimension.named(text) is obj
            except Exception:  # noqa: a lookup of a declared name that raises is not bound either
                ok = False
            if not ok:
                out.append(
                    ("declaration_not_bound", f"{sort} {what} {text!r}",
                     f"history {[h[0] for h in hist] + [e]}: {sort} {what} {text!r} was declared successfully but "
                     f"lookup gives {got!r} / object reports it: {reports}")
                )
        return out

    def canon(self, c):
        t = tables(c.w)
        return [t, sorted((k[0], k[1], k[2]) for k in c.bound)]


ONCE = {"define_dim", "dim_define_dup_name", "dim_define_dup_symbol", "dim_define_dup_derived_name"}

_BASE_U = None


def _base_uniq(w):
    global _BASE_U
    if _BASE_U is None:
        w.restore()
        _BASE_U = uniqueness(w)
    return _BASE_U


def describe_diff(a, b):
    out = []
    for k in a:
        if a[k] == b[k]:
            continue
        if isinstance(a[k], dict):
            added = {x: b[k][x] for x in b[k] if x not in a[k]}
            removed = [x for x in a[k] if x not in b[k]]
            changed = {x: (a[k][x], b[k][x]) for x in a[k] if x in b[k] and a[k][x] != b[k][x]}
            out.append(f"{k}: added {added} removed {removed} changed {changed}")
        else:
            sa, sb = set(map(repr, a[k])), set(map(repr, b[k]))
            out.append(f"{k}: added {sorted(sb - sa)[:3]} removed {sorted(sa - sb)[:3]}")
    return "; ".join(out)[:700]


# ------------------------------------------------------------------ Part S / I

_IMPORT_CODE = r"""
import sys, json, importlib
import mc
order = json.load(sys.stdin)
import measured
decls = []
m = measured
orig_alias = m.Unit.alias
def alias(self, name=None, symbol=None):
    r = orig_alias(self, name=name, symbol=symbol)
    decls.append(("unit", name, symbol, self))
    return r
m.Unit.alias = alias
orig_pinit = m.Prefix.__init__
def pinit(self, base, exponent, name=None, symbol=None):
    orig_pinit(self, base, exponent, name, symbol)
    if name or symbol:
        decls.append(("prefix", name, symbol, self))
m.Prefix.__init__ = pinit
orig_dderive = m.Dimension.derive.__func__
def dderive(cls, dimension, name, symbol=None):
    r = orig_dderive(cls, dimension, name, symbol)
    decls.append(("dimension", name, None, r))
    return r
m.Dimension.derive = classmethod(dderive)
for mod in order:
    importlib.import_module("measured." + mod)
from mc.world import World
from mc.checks import c19
w = World(modules=("measured.systems",), record=False)
bad = []
for sort, name, symbol, obj in decls:
    K = {"unit": m.Unit, "prefix": m.Prefix, "dimension": m.Dimension}[sort]
    if name:
        names = obj.names if sort == "unit" else (obj.name,)
        if K._by_name.get(name) is not obj or name not in names:
            bad.append(f"{sort} name {name!r} declared but not bound to the declared object")
    if symbol:
        syms = obj.symbols if sort == "unit" else (obj.symbol,)
        if K._by_symbol.get(symbol) is not obj or symbol not in syms:
            bad.append(f"{sort} symbol {symbol!r} declared but not bound to the declared object")
t = c19.tables(w)
print(json.dumps({"tables": json.loads(json.dumps(t, default=list)), "uniq": sorted(c19.uniqueness(w)),
                  "unbound": sorted(set(bad)), "ndecl": len(decls)}))
"""


def _import_run(order):
    return run_py(_IMPORT_CODE, order)


def run(rep, tier):
    w = get_world()
    thorough = tier == "thorough"
    model = C19Model()
    # ---- Part S: shipped state
    base_u = _base_uniq(w)
    for d in sorted(base_u):
        rep.violation("shipped_name_or_symbol_not_unique", d, f"after importing measured.systems: {d}", {"shipped": d})
    # ---- Part A
    depth = 5 if thorough else 3
    ex = HistoryExplorer(w, model, max_depth=depth, time_cap=3000 if thorough else 200).run()
    rep.extend(ex.violations)
    # additional depth with the core (state-changing) events only
    core = [e for e in EVENTS if e in (
        "anon_prefix", "anon_unit", "anon_dim", "name_prefix", "name_unit", "name_dim", "define_unit",
        "alias_unit", "define_space_symbol", "derive_dup_symbol", "alias_dup_symbol", "dim_derive_dup_name",
        "prefix_dup_symbol", "derive_dup_name", "name_prefix_dup_name", "name_prefix_dup_symbol", "lookup_dam", "define_dam")]
    ex2 = HistoryExplorer(w, C19Model(core), max_depth=depth + 2, time_cap=3000 if thorough else 200).run()
    rep.extend(ex2.violations)
    # ---- Part I: import orders
    orders = []
    firsts = list(itertools.permutations(MODULES, 2)) if thorough else [(a, MODULES[(i + 5) % len(MODULES)]) for i, a in enumerate(MODULES)]
    for a, b in firsts:
        orders.append([a, b] + [x for x in MODULES if x not in (a, b)])
    res = pmap(_import_run, orders)
    ref = res[0]
    for order, r in zip(orders, res):
        for d in r["unbound"]:
            rep.violation("shipped_declaration_not_bound", d, f"import order {order[:2]}...: {d}", {"order": order, "what": d})
        for d in r["uniq"]:
            rep.violation("shipped_name_or_symbol_not_unique", d, f"import order {order[:2]}...: {d}", {"order": order, "what": d})
        if r["tables"] != ref["tables"]:
            diffs = [k for k in ref["tables"] if r["tables"][k] != ref["tables"][k]]
            rep.violation(
                "registries_depend_on_import_order", f"first {order[0]}, then {order[1]}: {diffs}",
                f"registries after import order {order[:2]}... differ from order {orders[0][:2]}... in {diffs}",
                {"order": order, "ref": orders[0]},
            )
    cov = ex.coverage()
    cov2 = ex2.coverage()
    rep.cov.update(
        {
            "states": ex.states + ex2.states,
            "transitions": ex.transitions + ex2.transitions,
            "traces_validated_against_impl": len(orders),
            "exhaustive": ex.capped is None and ex2.capped is None,
            "full_menu": cov,
            "core_menu": cov2,
            "events": EVENTS,
            "import_orders": len(orders),
            "shipped_declarations_checked": ref["ndecl"],
            "samples": [[h[0] for h in x] for x in (ex.last_level[:3] + ex2.last_level[:2])] or [["define_unit"]],
            "canon": "all name/symbol registries, per-object names/symbols, intern-table key sets, + the set of successful declarations",
        }
    )
    rep.assumptions.append("asynchronous exceptions (KeyboardInterrupt mid-call) are not in the fault menu")


def replay(obj, kind=None):
    w = get_world()
    if "history" in obj:
        model = C19Model()
        c = model.init(w)
        hist = obj["history"]
        for h in hist[:-1]:
            model.apply(c, h)
        obs = model.apply(c, hist[-1])
        bad = model.invariant(c, hist[:-1], hist[-1], obs)
        return bool(bad), f"{[h[0] for h in hist]}: {obs}; " + "; ".join(f"{b[0]}: {b[1]}" for b in bad)
    if "shipped" in obj:
        u = uniqueness(w)
        return obj["shipped"] in u, f"{obj['shipped']!r} present: {obj['shipped'] in u}"
    if "order" in obj:
        r = _import_run(obj["order"])
        if "ref" in obj:
            r0 = _import_run(obj["ref"])
            return r["tables"] != r0["tables"], "tables differ" if r["tables"] != r0["tables"] else "same"
        present = obj["what"] in r["unbound"] or obj["what"] in r["uniq"]
        return present, f"{obj['what']!r} present: {present}"
    raise HarnessError("unknown replay object")

"""C20 — singletons stay singletons when constructed concurrently.

ScheduleExplorer: 2-3 real threads evaluating expressions that denote the same, not yet
interned, dimension / prefix / unit / logarithm / logarithmic unit; every interleaving at
line granularity with at most k preemptions; per execution: nobody raised, everybody got
the same object, the intern table holds exactly that object, a later evaluation returns it.
"""
import json

from .. import SRC
from ..common import HarnessError, chunked, pmap
from ..sched import ScheduleExplorer, Scheduler, install_coop_locks
from ..world import flat, get_world


def scenarios(w):
    m = w.m
    from measured.si import Meter, Second

    L = m.Length
    S = {}
    S["S1_dimension_pow"] = dict(
        bodies=[lambda: L**5, lambda: L**5, lambda: (L**2) * (L**3)],
        table=lambda: m.Dimension._known,
        after=lambda: L**5,
    )
    S["S2_prefix"] = dict(
        bodies=[lambda: m.Prefix(7, 3), lambda: m.Prefix(7, 1) ** 3],
        table=lambda: m.Prefix._known,
        after=lambda: m.Prefix(7, 3),
    )
    S["S3_unit_pow"] = dict(
        bodies=[lambda: Meter**5, lambda: Meter**5],
        table=lambda: m.Unit._known,
        after=lambda: Meter**5,
    )
    S["S4_unit_mul_cached"] = dict(
        bodies=[lambda: (Meter**2) * (Meter**3), lambda: (Meter**2) * (Meter**3), lambda: Meter**5],
        table=lambda: m.Unit._known,
        after=lambda: Meter**5,
    )
    S["S5_unit_and_dimension"] = dict(
        bodies=[lambda: Meter**5 / Second**7, lambda: Meter**5 / Second**7],
        table=lambda: m.Unit._known,
        after=lambda: Meter**5 / Second**7,
        also=lambda: (m.Dimension._known, L**5 / m.Time**7),
    )
    S["S6_parse_vs_pow"] = dict(
        bodies=[lambda: m.Unit.parse("m^5"), lambda: Meter**5],
        table=lambda: m.Unit._known,
        after=lambda: Meter**5,
    )
    S["S7_logarithm"] = dict(
        bodies=[lambda: m.Prefix(10, -2) * m.Bel, lambda: m.Prefix(10, -2) * m.Bel],
        table=lambda: m.Logarithm._known,
        after=lambda: m.Prefix(10, -2) * m.Bel,
    )
    S["S8_logarithmic_unit"] = dict(
        bodies=[lambda: m.Decibel[3 * Meter], lambda: m.Decibel[3 * Meter]],
        table=lambda: m.LogarithmicUnit._known,
        after=lambda: m.Decibel[3 * Meter],
    )
    S["S9_prefixed_unit"] = dict(
        bodies=[lambda: m.Prefix(10, 5) * Meter, lambda: m.Prefix(10, 2) * (m.Prefix(10, 3) * Meter)],
        table=lambda: m.Unit._known,
        after=lambda: m.Prefix(10, 5) * Meter,
    )
    def clash():
        # a definition that is rejected (the symbol is taken) while another thread evaluates the
        # same unit: whatever the failing thread cleans up must not take the unit away
        try:
            m.Unit(m.Prefix(10, 7), {Meter: 1}, L, name="verif clash", symbol="m")
        except ValueError:
            return None
        return "no error"

    S["S10_rejected_definition"] = dict(
        bodies=[clash, lambda: m.Prefix(10, 7) * Meter],
        table=lambda: m.Unit._known,
        after=lambda: m.Prefix(10, 7) * Meter,
        ignore_none=True,
    )
    # two DIFFERENT first-time dimensions: a registry that is copied, modified and published
    # loses the other thread's entry
    S["S11_two_dimensions"] = dict(
        bodies=[lambda: L**11, lambda: m.Time**13],
        table=lambda: m.Dimension._known,
        after=lambda: L**11,
        each_after=[lambda: L**11, lambda: m.Time**13],
    )
    return S


BOUNDS = {
    "quick": {2: 2, 3: 1},
    "thorough": {2: 3, 3: 2},
}
# scenarios with several hundred scheduling points get a smaller bound (reported per scenario)
BOUND_OVERRIDE = {
    ("quick", "S5_unit_and_dimension"): 1,
    ("thorough", "S5_unit_and_dimension"): 2,
    ("thorough", "S3_unit_pow"): 3,
    ("thorough", "S6_parse_vs_pow"): 2,
    ("thorough", "S9_prefixed_unit"): 2,
}

_SCHED = None


def get_sched(w):
    global _SCHED
    if _SCHED is None:
        import sys

        _SCHED = Scheduler(SRC + "/measured")
        mods = [mod for name, mod in sys.modules.items() if name == "measured" or name.startswith("measured.")]
        _SCHED.replaced_locks = install_coop_locks(_SCHED, [x for x in mods if x is not None])
    return _SCHED


def make_check(w, sc):
    def check(x):
        if x.deadlock:
            return "deadlock", ("deadlock", "no enabled thread while some are alive")
        if x.errors:
            t, e = sorted(x.errors.items())[0]
            return "raised", ("thread_raised", f"thread {t} raised {type(e).__name__}: {e}")
        objs = [x.results[i] for i in sorted(x.results)]
        if "each_after" in sc:
            # every thread built its own value: each must be what a later evaluation returns,
            # and be interned exactly once
            for i, (o, again) in enumerate(zip(objs, sc["each_after"])):
                if again() is not o:
                    return "later_differs", ("later_evaluation_differs", f"thread {i}'s object is not what a later evaluation of the same expression returns")
                if sum(1 for v in flat(sc["table"]()) if v is o) != 1:
                    return "table", ("intern_table_entry_count", f"thread {i}'s object is not interned exactly once")
            return "ok", None
        if sc.get("ignore_none"):
            if any(o == "no error" for o in objs):
                return "ok", None  # the definition was accepted on this tree: nothing to roll back
            objs = [o for o in objs if o is not None]
        first = objs[0]
        if any(o is not first for o in objs):
            return "different_objects", (
                "threads_got_different_objects",
                f"threads obtained {len({id(o) for o in objs})} distinct objects for one expression: "
                + ", ".join(f"T{i}:{id(o):#x}" for i, o in enumerate(objs)),
            )
        table = sc["table"]()
        entries = [v for v in flat(table) if v is first]
        if len(entries) != 1:
            return "table", ("intern_table_entry_count", f"{len(entries)} intern-table entries hold the object")
        later = sc["after"]()
        if later is not first:
            return "later_differs", ("later_evaluation_differs", "an evaluation after the join returns another object")
        if "also" in sc:
            tab, obj = sc["also"]()
            if sum(1 for v in flat(tab) if v is obj) != 1:
                return "table2", ("intern_table_entry_count", "nested object not interned exactly once")
        # no second interned object of the same structure
        if hasattr(first, "factors") and hasattr(first, "prefix"):
            k = w.ukey(first)
            same = [u for u in flat(w.m.Unit._known) if isinstance(u, w.m.Unit) and w.ukey(u) == k]
            if len(same) != 1:
                return "dup_structure", ("duplicate_structure", f"{len(same)} interned units share the structure {k}")
        return "ok", None

    return check


def _explore_subtree(args):
    name, bound, prefixes = args
    w = get_world()
    sched = get_sched(w)
    sc = scenarios(w)[name]
    ex = ScheduleExplorer(sched, lambda: sc["bodies"], make_check(w, sc), w.restore, bound)
    for p in prefixes:
        ex.explore(p)
    w.restore()
    return ex.executions, ex.violations, ex.outcomes, ex.max_points


def explore_scenario(w, name, bound):
    sched = get_sched(w)
    sc = scenarios(w)[name]
    root = ScheduleExplorer(sched, lambda: sc["bodies"], make_check(w, sc), w.restore, bound)
    x = root.run_one([])
    # determinism: the same schedule twice gives the identical (thread, line) trace
    w.restore()
    x2 = sched.run(sc["bodies"], list(x.choices))
    if x2.trace != x.trace:
        raise HarnessError(f"{name}: replaying one schedule gave a different trace")
    kids = root.alternatives(x, 0)
    # a switch at the very first steps costs no preemption, so that child's subtree is as
    # large as the root's: run such children here and hand out *their* children instead
    for _ in range(3):
        big = [k for k in kids if len(k) <= 3]
        if not big:
            break
        kids = [k for k in kids if len(k) > 3]
        for k in big:
            xk = root.run_one(k)
            kids += root.alternatives(xk, len(k))
    res = pmap(_explore_subtree, [(name, bound, kids[j::64]) for j in range(min(64, len(kids)))]) if kids else []
    n = root.executions
    viols = list(root.violations)
    outcomes = dict(root.outcomes)
    maxp = root.max_points
    for a, b, c, d in res:
        n += a
        viols += b
        for k, v in c.items():
            outcomes[k] = outcomes.get(k, 0) + v
        maxp = max(maxp, d)
    w.restore()
    return n, viols, outcomes, maxp, x


def run(rep, tier):
    w = get_world()
    S = scenarios(w)
    sched = get_sched(w)
    total = 0
    per = {}
    samples = []
    all_outcomes = {}
    for name, sc in S.items():
        nthreads = len(sc["bodies"])
        bound = BOUND_OVERRIDE.get((tier, name), BOUNDS[tier][nthreads])
        n, viols, outcomes, maxp, x0 = explore_scenario(w, name, bound)
        total += n
        per[name] = {"threads": nthreads, "preemption_bound": bound, "schedules": n, "scheduling_points": maxp, "outcomes": outcomes}
        for k, v in outcomes.items():
            all_outcomes[k] = all_outcomes.get(k, 0) + v
        samples.append({"scenario": name, "default_schedule_trace_head": [list(t) for t in x0.trace[:6]]})
        seen_kind = set()
        for (kind, detail), choices in sorted(viols, key=lambda v: (sum(1 for c in v[1] if c), len(v[1]))):
            if (kind, name) in seen_kind:
                continue
            seen_kind.add((kind, name))
            cls = name.split("_", 1)[0]
            rep.violation(kind, f"{name}", f"{name}: {detail}; schedule (choice per step) {compact(choices)}", {"scenario": name, "choices": choices})
        rep.note(f"{name}: {nthreads} threads, <= {bound} preemptions: {n} schedules, outcomes {outcomes}")
    rep.cov.update(
        {
            "states": total,
            "transitions": sum(v["schedules"] * v["scheduling_points"] for v in per.values()),
            "traces_validated_against_impl": total,
            "exhaustive": True,
            "schedules": total,
            "per_scenario": per,
            "distinct_outcomes": all_outcomes,
            "replaced_locks": getattr(sched, "replaced_locks", []),
            "samples": samples[:4],
            "note": "states = complete executions (schedules) explored on the real code; transitions = scheduling steps (upper bound schedules x longest execution)",
        }
    )
    rep.assumptions += [
        "line granularity under GIL semantics (one line of one thread at a time); CPython 3.12",
        "every schedule is executed on the real library, so each is its own conformance trace",
    ]


def compact(choices):
    out = []
    for i, c in enumerate(choices):
        if c:
            out.append(f"{i}:{c}")
    return "[" + ",".join(out) + f"] of {len(choices)} steps"


def replay(obj, kind=None):
    w = get_world()
    sched = get_sched(w)
    sc = scenarios(w)[obj["scenario"]]
    w.restore()
    x = sched.run(sc["bodies"], obj["choices"])
    oc, viol = make_check(w, sc)(x)
    tr = [f"T{t}@{fn}:{ln}" for t, fn, ln in x.trace]
    w.restore()
    x2 = sched.run(sc["bodies"], obj["choices"])
    if x2.trace != x.trace:
        raise HarnessError("replay is not deterministic")
    return viol is not None, f"{oc}: {viol}; trace {' '.join(tr)}"

"""Shared plumbing: reporter (violations, known findings, replay artefacts, evidence),
fork-based parallel map, subprocess helpers."""
import hashlib
import json
import os
import re
import subprocess
import sys
import time
import traceback
from pathlib import Path

from . import SRC

VERIF = Path(__file__).resolve().parent.parent
# VERIF_OUT redirects evidence and replay artefacts (used only by the mutation driver, so that
# runs against seeded changes never overwrite the evidence of the real tree)
_OUT = Path(os.environ["VERIF_OUT"]) if os.environ.get("VERIF_OUT") else VERIF
EVIDENCE_DIR = _OUT / "evidence"
REPLAY_DIR = _OUT / "replays"
FINDINGS_FILE = VERIF / "known_findings.json"
EVIDENCE_SCHEMA = VERIF / "schemas" / "EVIDENCE.schema.json"
PY = "/venv/bin/python"
NPROC = int(os.environ.get("VERIF_NPROC", "16"))
# CPUs available to the top-level check process; pmap pins each worker to one of them
# (thread-to-thread baton passes of the ScheduleExplorer are ~8x cheaper on one CPU of
# this VM than across CPUs), and fresh subprocesses get the full set back.
if "VERIF_CPUS" not in os.environ:
    os.environ["VERIF_CPUS"] = ",".join(map(str, sorted(os.sched_getaffinity(0))))
ALL_CPUS = [int(c) for c in os.environ["VERIF_CPUS"].split(",") if c != ""]


class HarnessError(Exception):
    """The machinery itself misbehaved (divergent replay, bound not completed, library not
    importable).  Never reported as a violation and never as success: exit status 2."""


def seed() -> int:
    try:
        return int(os.environ.get("VERIF_SEED", "0"))
    except ValueError:
        return 0


def rotate(seq, k=None):
    """Rotate (never subset) an enumeration order by the seed."""
    seq = list(seq)
    if not seq:
        return seq
    k = (seed() if k is None else k) % len(seq)
    return seq[k:] + seq[:k]


def assert_repo():
    import measured

    f = os.path.realpath(measured.__file__)
    if not f.startswith(os.path.realpath(SRC) + os.sep):
        raise HarnessError(f"measured imported from {f}, expected under {SRC}")
    return f


def digest(obj) -> str:
    return hashlib.sha1(
        json.dumps(obj, sort_keys=True, default=str, ensure_ascii=False).encode()
    ).hexdigest()[:16]


# ------------------------------------------------------------------ parallel map

def pmap(fn, items, procs=None, chunksize=1):
    """Fork-based map: the children inherit the already-imported library and World.

    Hand-rolled (fork + one pipe per child, static round-robin partition) rather than
    multiprocessing.Pool: the pool's helper threads in the parent and its shared queue
    locks do not mix with the real threads the ScheduleExplorer starts in the workers."""
    import pickle
    import select

    items = list(items)
    procs = min(procs or NPROC, max(1, len(items)))
    if procs <= 1 or os.environ.get("VERIF_SERIAL"):
        return [fn(x) for x in items]
    sys.stdout.flush()
    sys.stderr.flush()
    children = []
    for k in range(procs):
        r, w_ = os.pipe()
        pid = os.fork()
        if pid == 0:
            os.close(r)
            code = 0
            try:
                os.sched_setaffinity(0, {ALL_CPUS[k % len(ALL_CPUS)]})
            except OSError:
                pass
            try:
                out = []
                for i in range(k, len(items), procs):
                    try:
                        out.append((i, "ok", fn(items[i])))
                    except BaseException:  # noqa
                        out.append((i, "err", traceback.format_exc()))
                        break
                data = pickle.dumps(out, protocol=pickle.HIGHEST_PROTOCOL)
                with os.fdopen(w_, "wb") as f:
                    f.write(data)
            except BaseException:  # noqa
                traceback.print_exc()
                code = 3
            finally:
                sys.stdout.flush()
                sys.stderr.flush()
                os._exit(code)
        os.close(w_)
        children.append((pid, r))
    bufs = {r: bytearray() for _, r in children}
    open_fds = set(bufs)
    while open_fds:
        ready, _, _ = select.select(list(open_fds), [], [])
        for fd in ready:
            chunk = os.read(fd, 1 << 20)
            if chunk:
                bufs[fd] += chunk
            else:
                open_fds.discard(fd)
                os.close(fd)
    results = [None] * len(items)
    got = [False] * len(items)
    errors = []
    for pid, r in children:
        _, status = os.waitpid(pid, 0)
        if status != 0:
            errors.append(f"worker {pid} exited with status {status}")
        if bufs[r]:
            for i, tag, val in pickle.loads(bytes(bufs[r])):
                if tag == "err":
                    errors.append(val)
                else:
                    results[i] = val
                    got[i] = True
    if errors:
        raise HarnessError("worker failed:\n" + "\n".join(errors[:3]))
    if not all(got):
        raise HarnessError("a worker returned no result for some items")
    return results


def chunked(seq, n):
    seq = list(seq)
    k = max(1, (len(seq) + n - 1) // n)
    return [seq[i : i + k] for i in range(0, len(seq), k)]


def _unpin():
    try:
        os.sched_setaffinity(0, set(ALL_CPUS))
    except OSError:
        pass


def run_py(code_or_args, input_obj=None, timeout=3600, opt=False, module=None, env=None):
    """Run a fresh interpreter (same bootstrap) and return parsed JSON from its stdout."""
    e = dict(os.environ)
    e["PYTHONHASHSEED"] = "0"
    e["PYTHONDONTWRITEBYTECODE"] = "1"
    e["PYTHONPATH"] = str(VERIF) + (
        ":" + e["PYTHONPATH"] if e.get("PYTHONPATH") else ""
    )
    if env:
        e.update(env)
    cmd = [PY, "-B"] + (["-O"] if opt else [])
    if module:
        cmd += ["-m", module] + list(code_or_args)
    else:
        cmd += ["-c", code_or_args]
    p = subprocess.run(
        cmd,
        input=json.dumps(input_obj) if input_obj is not None else None,
        capture_output=True,
        text=True,
        timeout=timeout,
        env=e,
        cwd=str(VERIF),
        preexec_fn=_unpin,
    )
    if p.returncode != 0:
        raise HarnessError(
            f"subprocess {cmd[:6]} exited {p.returncode}\n{p.stdout[-2000:]}\n{p.stderr[-4000:]}"
        )
    try:
        return json.loads(p.stdout)
    except Exception:
        raise HarnessError(f"subprocess produced no JSON:\n{p.stdout[-2000:]}\n{p.stderr[-2000:]}")


# ------------------------------------------------------------------ findings


def load_findings(pid):
    if not FINDINGS_FILE.exists():
        return []
    data = json.loads(FINDINGS_FILE.read_text())
    return [f for f in data.get("findings", []) if f.get("property") == pid]


def _match_one(f, kind, key) -> bool:
    if f.get("kind") != kind:
        return False
    if "key" in f:
        return f["key"] == key
    if "keys" in f:
        return key in f["keys"]
    if "key_regex" in f:
        return re.fullmatch(f["key_regex"], key) is not None
    return False


def finding_matches(f, kind, key) -> bool:
    """An open finding lists the specific (failure kind, input / call site / history)
    pairs it covers, either inline or as a list under "match"."""
    if f.get("status") != "open":
        return False
    if "match" in f:
        return any(_match_one(m, kind, key) for m in f["match"])
    return _match_one(f, kind, key)


# ------------------------------------------------------------------ reporter


class Reporter:
    def __init__(self, pid, tier, level):
        self.pid = pid
        self.tier = tier
        self.level = level
        self.seed = seed()
        self.t0 = time.time()
        self.cov = {}
        self.assumptions = []
        self.violations = []  # (kind, key, detail, replay)
        self._seen = set()
        self.notes = []

    def violation(self, kind, key, detail, replay):
        """kind: failure class as judged by the oracle; key: the specific input / call
        site / history (stable text); replay: JSON-able object understood by the check's
        replay()"""
        k = (kind, key)
        if k in self._seen:
            return
        self._seen.add(k)
        self.violations.append((kind, key, detail, replay))

    def extend(self, vs):
        for v in vs:
            self.violation(*v)

    def note(self, s):
        self.notes.append(s)
        print(f"[{self.pid}] {s}", flush=True)

    def add(self, name, n=1):
        self.cov[name] = self.cov.get(name, 0) + n

    def finish(self, replay_fn=None) -> int:
        findings = load_findings(self.pid)
        matched = {}
        unmatched = []
        for v in self.violations:
            for i, f in enumerate(findings):
                if finding_matches(f, v[0], v[1]):
                    matched.setdefault(i, []).append(v)
                    break
            else:
                unmatched.append(v)
        for i, vs in matched.items():
            f = findings[i]
            print(
                f"KNOWN-FINDING: property={self.pid} {f.get('what', f.get('kind'))} "
                f"[{len(vs)} witness(es) this run, e.g. {vs[0][1]}]",
                flush=True,
            )
        rc = 0
        written = []
        if unmatched:
            outdir = REPLAY_DIR / self.pid
            outdir.mkdir(parents=True, exist_ok=True)
            per_kind = {}
            for kind, key, detail, replay in unmatched:
                per_kind.setdefault(kind, []).append((key, detail, replay))
            for kind, lst in per_kind.items():
                for key, detail, replay in lst[:8]:
                    obj = {
                        "property": self.pid,
                        "kind": kind,
                        "key": key,
                        "detail": detail,
                        "replay": replay,
                    }
                    path = outdir / f"{kind}-{digest([kind, key])}.json"
                    path.write_text(json.dumps(obj, indent=1, ensure_ascii=False, default=str))
                    written.append((kind, key, detail, path))
            # confirm in a brand-new interpreter before reporting (first of each kind)
            if replay_fn is not None and not os.environ.get("VERIF_NO_CONFIRM"):
                # every failure kind must reproduce in a brand-new interpreter before it is
                # reported.  A witness may depend on what the same worker did before it (a
                # memo, an intern table), which a single-case replay cannot show, so up to
                # five witnesses of the kind are tried and the first that reproduces is
                # listed first; witnesses that did not reproduce are dropped from the report.
                by_kind = {}
                for item in written:
                    by_kind.setdefault(item[0], []).append(item)
                written = []
                for kind, items in by_kind.items():
                    confirmed = None
                    failed = []
                    last = None
                    for item in items[:5]:
                        p = subprocess.run(
                            [str(VERIF / "check"), self.pid, "--replay", str(item[3])],
                            capture_output=True,
                            text=True,
                            timeout=900,
                        )
                        last = p
                        if p.returncode == 1:
                            confirmed = item
                            break
                        failed.append(item)
                    if confirmed is None:
                        print(last.stdout[-3000:], last.stderr[-3000:], file=sys.stderr)
                        raise HarnessError(
                            f"violation {kind} {items[0][1]} did not reproduce in a fresh "
                            f"interpreter (replay exit {last.returncode}, {len(items[:5])} witness(es) tried); not reported"
                        )
                    written.append(confirmed)
                    written += [it for it in items if it is not confirmed and it not in failed]
            for kind, key, detail, path in written:
                print(f"VIOLATION property={self.pid} replay={path}", flush=True)
                print(f"  kind={kind} key={key}\n  {detail}", flush=True)
            if len(unmatched) > len(written):
                print(
                    f"  (+{len(unmatched) - len(written)} further violating cases of the "
                    f"same kinds, see evidence)",
                    flush=True,
                )
            rc = 1
        self.write_evidence(len(unmatched), len(self.violations) - len(unmatched))
        return rc

    def write_evidence(self, n_viol, n_known):
        cov = dict(self.cov)
        cov.setdefault("samples", [])
        cov["samples"] = cov["samples"][:12]
        cov["known_finding_witnesses"] = n_known
        if self.notes:
            cov["notes"] = self.notes[-40:]
        ev = {
            "property_id": self.pid,
            "tier": self.tier,
            "seed": self.seed,
            "level": self.level,
            "coverage": cov,
            "assumptions": self.assumptions,
            "wall_s": round(time.time() - self.t0, 3),
            "violations": n_viol,
        }
        EVIDENCE_DIR.mkdir(parents=True, exist_ok=True)
        path = EVIDENCE_DIR / f"{self.pid}.json"
        text = json.dumps(ev, indent=1, ensure_ascii=False, default=str)
        import jsonschema

        jsonschema.validate(json.loads(text), json.loads(EVIDENCE_SCHEMA.read_text()))
        path.write_text(text)

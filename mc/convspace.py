"""The space of offset-free unit shapes shared by C04, C05, C06 and C11: named units of all
shipped modules grouped by dimension, with sizes from the SizeOracle; shape specs that are
plain data (so that cases can be shipped to workers and written to replay files).

A spec is (prefix name or None, ((unit name, exponent), ...)).
"""
import itertools
from decimal import Decimal

from .common import HarnessError
from .models import D, SizeOracle, prefix_value

AMBIGUITY = Decimal("1e-5")


class Space:
    def __init__(self, w):
        self.w = w
        m = w.m
        self.oracle = SizeOracle(w)
        rev = SizeOracle(w, decls=list(reversed(w.decls)))
        self.ambiguous = {}
        for u, s in self.oracle.size.items():
            s2 = rev.size.get(u)
            if s2 is not None and abs(s / s2 - 1) > AMBIGUITY:
                self.ambiguous[w.base_name(u)] = float(s / s2 - 1)
        self.offset_scales = sorted(
            {w.base_name(u) for u, v in w.conv._offsets.items() if v}
            | {w.base_name(d[1]) for d in w.decls if d[0] == "translate"}
        )
        self.by_name = {}
        self.groups = {}  # dimension exponents -> [unit name]
        self.excluded = {}
        seen = set()
        for n, u in sorted(m.Unit._by_name.items()):
            if id(u) in seen:
                continue
            seen.add(id(u))
            name = u.names[0]
            bases = [w.base_name(f) for f in u.factors]
            if any(b in self.offset_scales for b in bases):
                self.excluded[name] = "offset scale"
                continue
            if any(b in self.ambiguous for b in bases):
                self.excluded[name] = "inconsistently defined (C09)"
                continue
            if u is m.One:
                continue
            if self.oracle.unit_size(u) is None:
                self.excluded[name] = "no size derivable"
                continue
            self.by_name[name] = u
            self.groups.setdefault(tuple(u.dimension.exponents), []).append(name)
        self.prefixes = {p.name: p for p in set(m.Prefix._by_name.values())}

    # ------------------------------------------------------------ specs
    def unit(self, spec):
        pfx, factors = spec
        u = None
        for n, e in factors:
            t = self.by_name[n] ** e if n in self.by_name else self.w.m.Unit._by_name[n] ** e
            u = t if u is None else u * t
        if pfx:
            u = self.prefixes[pfx] * u
        return u

    def size(self, spec):
        """Size of the spec'd unit in coherent SI, from the declarations (Decimal)."""
        return self.oracle.unit_size(self.unit(spec))

    @staticmethod
    def degree(*specs):
        return max(1, *[sum(abs(e) for _, e in s[1]) for s in specs])

    @staticmethod
    def show(spec):
        pfx, factors = spec
        body = "*".join(f"{n}^{e}" if e != 1 else n for n, e in factors)
        return f"{pfx}*({body})" if pfx else body

    def dim_of(self, name):
        return tuple(self.by_name[name].dimension.exponents)

    def pick(self, dim_symbol_names, k):
        """First k names (after preferring the listed ones) of a group."""
        return dim_symbol_names[:k]


def norm(spec):
    pfx, factors = spec
    return (pfx, tuple((n, int(e)) for n, e in factors))


def mag(m):
    """Exact value of a magnitude as Decimal (floats by repr, as the author wrote them)."""
    return D(m)

"""HistoryExplorer: explicit-state breadth-first search over the real transition function
(DESIGN §3.2).  A state is the event history that reaches it; it is rebuilt by
restore(baseline) + replay(history) so that caches and intern tables are exactly what a
real process executing that history would hold."""
import time

from .common import HarnessError, chunked, digest, pmap


class Model:
    """Interface a check implements.

    init(world) -> ctx                     fresh context on the restored baseline
    events(ctx) -> list of JSON-able events enabled in ctx (simplest first)
    apply(ctx, ev) -> observation          executes the real API
    invariant(ctx, hist, ev, obs) -> list of (kind, key, detail)
    canon(ctx) -> hashable canonical state
    """

    def init(self, world):
        raise NotImplementedError

    def events(self, ctx):
        raise NotImplementedError

    def apply(self, ctx, ev):
        raise NotImplementedError

    def invariant(self, ctx, hist, ev, obs):
        return []

    def canon(self, ctx):
        raise NotImplementedError


class HistoryExplorer:
    def __init__(self, world, model, max_depth, state_cap=None, time_cap=None, validate_every=997):
        self.w = world
        self.model = model
        self.max_depth = max_depth
        self.state_cap = state_cap
        self.time_cap = time_cap
        self.validate_every = validate_every
        self.base_digest = world.registry_digest()
        self.states = 0
        self.transitions = 0
        self.levels = []
        self.completed_depth = 0
        self.capped = None
        self.violations = []
        self.outcomes = {}
        self.last_level = []
        self._probing = False
        self.probe_transitions = 0

    def build(self, hist):
        self.w.restore()
        ctx = self.model.init(self.w)
        for ev in hist:
            self.model.apply(ctx, ev)
        return ctx

    def _expand(self, hists):
        w, model = self.w, self.model
        out_states = {}
        viols = []
        ntrans = 0
        outcomes = {}
        n_restores = 0
        for hist in hists:
            ctx = self.build(hist)
            evs = model.final_events(ctx) if self._probing else model.events(ctx)
            for ev in evs:
                n_restores += 1
                if n_restores % self.validate_every == 0:
                    w.restore()
                    if w.registry_digest() != self.base_digest:
                        raise HarnessError("restore() did not return to the baseline digest")
                ctx = self.build(hist)
                obs = model.apply(ctx, ev)
                ntrans += 1
                oc = obs[0] if isinstance(obs, (tuple, list)) and obs else str(obs)
                outcomes[oc] = outcomes.get(oc, 0) + 1
                bad = model.invariant(ctx, hist, ev, obs)
                for kind, key, detail in bad:
                    viols.append(
                        (kind, key, detail, {"history": hist + [ev], "model": getattr(model, "tag", None)})
                    )
                if bad:
                    # a violating transition is terminal: its target is not expanded, so
                    # every reported counterexample is a shortest one and a poisoned
                    # state does not re-report the same damage at every successor
                    continue
                c = digest(model.canon(ctx))
                if c not in out_states:
                    out_states[c] = hist + [ev]
        return ntrans, out_states, viols, outcomes

    def run(self, max_viol=200):
        t0 = time.time()
        w, model = self.w, self.model
        w.restore()
        ctx = model.init(w)
        seen = {digest(model.canon(ctx))}
        frontier = [[]]
        self.states = 1
        for depth in range(1, self.max_depth + 1):
            if not frontier:
                break
            parts = chunked(frontier, 64)
            results = pmap(self._expand, parts)
            nxt = []
            lt = 0
            for ntrans, out_states, viols, outcomes in results:
                lt += ntrans
                for k, v in outcomes.items():
                    self.outcomes[k] = self.outcomes.get(k, 0) + v
                for v in viols:
                    if len(self.violations) < max_viol:
                        self.violations.append(v)
                for c, h in out_states.items():
                    if c not in seen:
                        seen.add(c)
                        nxt.append(h)
            self.transitions += lt
            self.states = len(seen)
            self.levels.append(
                {"depth": depth, "expanded": len(frontier), "transitions": lt, "new_states": len(nxt)}
            )
            self.completed_depth = depth
            self.last_level = nxt
            frontier = nxt
            if self.state_cap and len(seen) > self.state_cap and depth < self.max_depth:
                self.capped = f"state cap {self.state_cap} exceeded after depth {depth}"
                break
            if self.time_cap and time.time() - t0 > self.time_cap and depth < self.max_depth:
                self.capped = f"time cap {self.time_cap}s exceeded after depth {depth}"
                break
        # probe level: every state of the deepest completed level is extended by the model's
        # observation-only events (final_events), invariants checked, nothing expanded
        # further.  A violation that needs max_depth events plus one observing query is
        # found without paying for the full next level.
        if hasattr(model, "final_events") and frontier and self.capped is None:
            self._probing = True
            results = pmap(self._expand, chunked(frontier, 64))
            self._probing = False
            for ntrans, _out, viols, outcomes in results:
                self.probe_transitions += ntrans
                for k, v in outcomes.items():
                    self.outcomes[k] = self.outcomes.get(k, 0) + v
                for v in viols:
                    if len(self.violations) < max_viol:
                        self.violations.append(v)
            self.transitions += self.probe_transitions
        w.restore()
        return self

    def coverage(self):
        return {
            "states": self.states,
            "transitions": self.transitions,
            "max_depth_completed": self.completed_depth,
            "depth_bound": self.max_depth,
            "levels": self.levels,
            "capped": self.capped,
            "probe_level_transitions": self.probe_transitions,
            "distinct_outcomes": dict(sorted(self.outcomes.items())),
        }

"""LalrProduct: explicit-state product of two LALR(1) automata (DESIGN §3.5)."""
import os


def action_kind(a):
    k = a[0]
    if k == 0 or str(k) == "Shift" or getattr(k, "name", None) == "Shift":
        return "S"
    return "R"


def sym_sig(s):
    return (s.name, bool(s.is_term), bool(getattr(s, "filter_out", False)))


def options_sig(o):
    if o is None:
        return None
    return (
        bool(o.keep_all_tokens),
        bool(o.expand1),
        o.priority,
        getattr(o, "template_source", None),
        tuple(getattr(o, "empty_indices", ()) or ()),
    )


def rule_sig(r):
    return (
        str(r.origin.name),
        tuple(sym_sig(s) for s in r.expansion),
        r.alias,
        options_sig(r.options),
        r.order,
    )


def norm_table(pt):
    states = {}
    for sid, row in pt.states.items():
        nr = {}
        for sym, act in row.items():
            name = getattr(sym, "name", sym)
            if action_kind(act) == "S":
                nr[str(name)] = ("S", act[1])
            else:
                nr[str(name)] = ("R", rule_sig(act[1]))
        states[sid] = nr
    return {
        "states": states,
        "start": dict(pt.start_states),
        "end": dict(pt.end_states),
    }


def terminal_sig(t):
    p = t.pattern
    return (
        t.name,
        type(p).__name__,
        p.value,
        tuple(sorted(p.flags)),
        t.priority,
        p.to_regexp(),
    )


def lexer_sig(lark_inst):
    lc = lark_inst.lexer_conf
    return {
        "terminals": sorted(terminal_sig(t) for t in lark_inst.terminals),
        "ignore": sorted(lc.ignore),
        "g_regex_flags": int(lc.g_regex_flags),
        "lexer_type": str(lc.lexer_type),
        "use_bytes": bool(getattr(lc, "use_bytes", False)),
    }


TREE_OPTIONS = ("keep_all_tokens", "maybe_placeholders", "propagate_positions", "start", "lexer", "parser", "priority", "regex", "use_bytes")


def options_dict(lark_inst):
    o = lark_inst.options
    d = getattr(o, "options", None) or {}
    return {k: (list(d.get(k)) if isinstance(d.get(k), (list, tuple)) else d.get(k)) for k in TREE_OPTIONS}


def product(A, B):
    """Breadth-first product of two normalised tables.  Returns (pairs, transitions,
    mismatches); an empty mismatch list with a bijective pair relation is an isomorphism
    of LR automata."""
    mism = []
    a2b, b2a = {}, {}
    queue = []

    def relate(sa, sb, why):
        if sa in a2b or sb in b2a:
            if a2b.get(sa) != sb or b2a.get(sb) != sa:
                mism.append(("not_a_bijection", f"{why}: A{sa}<->B{sb} clashes with A{sa}->B{a2b.get(sa)} / B{sb}->A{b2a.get(sb)}"))
            return
        a2b[sa] = sb
        b2a[sb] = sa
        queue.append((sa, sb))

    if set(A["start"]) != set(B["start"]):
        mism.append(("start_symbols", f"{sorted(A['start'])} vs {sorted(B['start'])}"))
    for s in sorted(set(A["start"]) & set(B["start"])):
        relate(A["start"][s], B["start"][s], f"start {s}")
    ntrans = 0
    i = 0
    while i < len(queue):
        sa, sb = queue[i]
        i += 1
        ra, rb = A["states"].get(sa), B["states"].get(sb)
        if ra is None or rb is None:
            mism.append(("missing_state", f"A{sa} / B{sb}"))
            continue
        if set(ra) != set(rb):
            mism.append(("symbols_differ", f"A{sa}/B{sb}: only in shipped {sorted(set(ra) - set(rb))}, only in grammar {sorted(set(rb) - set(ra))}"))
        for sym in sorted(set(ra) & set(rb)):
            ntrans += 1
            xa, xb = ra[sym], rb[sym]
            if xa[0] != xb[0]:
                mism.append(("action_kind", f"A{sa}/B{sb} on {sym}: {xa[0]} vs {xb[0]}"))
            elif xa[0] == "S":
                relate(xa[1], xb[1], f"A{sa}/B{sb} on {sym}")
            elif xa[1] != xb[1]:
                mism.append(("reduce_rule", f"A{sa}/B{sb} on {sym}: {xa[1]} vs {xb[1]}"))
    for s in sorted(set(A["end"]) & set(B["end"])):
        if a2b.get(A["end"][s], "unreached") != B["end"][s] and A["end"][s] in a2b:
            mism.append(("end_state", f"end state of {s}: A{A['end'][s]} maps to B{a2b[A['end'][s]]}, expected B{B['end'][s]}"))
    unreached_a = sorted(set(A["states"]) - set(a2b))
    unreached_b = sorted(set(B["states"]) - set(b2a))
    if unreached_a or unreached_b:
        mism.append(("unreachable_states", f"shipped {unreached_a} grammar {unreached_b}"))
    return len(a2b), ntrans, mism


class LRSim:
    """Minimal LR driver over a normalised table, on terminal *names*: tells whether a
    token-type sequence is a viable prefix / accepted.  Used only to prune the conformance
    enumeration (both runtimes still parse every rendered string)."""

    def __init__(self, T, start):
        self.T = T
        self.start = start

    def feed(self, stack, tok):
        """Returns new stack or None when `tok` is rejected."""
        stack = list(stack)
        while True:
            row = self.T["states"][stack[-1]]
            act = row.get(tok)
            if act is None:
                return None
            if act[0] == "S":
                stack.append(act[1])
                return stack
            origin, expansion = act[1][0], act[1][1]
            if expansion:
                del stack[-len(expansion):]
            goto = self.T["states"][stack[-1]].get(origin)
            if goto is None:
                return None
            stack.append(goto[1])
            if tok == "$END" and stack[-1] == self.T["end"][self.start]:
                return stack

    def initial(self):
        return [self.T["start"][self.start]]

    def accepts(self, stack):
        s = self.feed(stack, "$END")
        return s is not None


def token_sequences(T, start, terminals, maxlen):
    """All terminal-name sequences up to maxlen that are viable prefixes, each also
    extended by every first rejecting token (those end the branch)."""
    sim = LRSim(T, start)
    out = []

    def rec(seq, stack):
        out.append((tuple(seq), "viable"))
        if len(seq) >= maxlen:
            return
        for t in terminals:
            ns = sim.feed(stack, t)
            if ns is None:
                out.append((tuple(seq + [t]), "rejecting"))
            else:
                rec(seq + [t], ns)

    rec([], sim.initial())
    return out


def tree_sig(t):
    """Structure of a parse tree independent of which Tree/Token classes built it."""
    if hasattr(t, "data") and hasattr(t, "children"):
        return ("T", str(t.data), tuple(tree_sig(c) for c in t.children))
    if hasattr(t, "type"):
        return ("t", str(t.type), str(t))
    return ("v", repr(t))

"""./check <ID> [--tier quick|thorough] [--replay file]   |   ./check --selftest"""
import argparse
import importlib
import json
import os
import sys
import traceback

from .common import HarnessError, Reporter, assert_repo

LEVELS = {
    "C01": "model_checking",
    "C02": "model_checking",
    "C03": "exploration",
    "C04": "exploration",
    "C05": "exploration",
    "C06": "exploration",
    "C07": "exploration",
    "C08": "model_checking",
    "C09": "model_checking",
    "C10": "exploration",
    "C11": "exploration",
    "C12": "exploration",
    "C13": "exploration",
    "C14": "exploration",
    "C15": "exploration",
    "C16": "model_checking",
    "C17": "exploration",
    "C18": "exploration",
    "C19": "model_checking",
    "C20": "model_checking",
}


def selftest() -> int:
    from . import world as W

    f = assert_repo()
    w = W.get_world()
    d0 = w.registry_digest()
    m = w.m
    from measured.si import Meter, Second

    u = Meter**7 / Second**5
    m.Unit.define(m.Length, "verif selftest", "vst")
    u.alias(name="verif alias")
    (1 * Meter**7).in_unit(Meter**7)
    if w.registry_digest() == d0:
        raise HarnessError("mutation not visible in registry digest")
    w.restore()
    if w.registry_digest() != d0:
        raise HarnessError("restore did not return to the baseline")
    import jsonschema  # noqa

    from .common import VERIF

    for s in ("EVIDENCE", "MANIFEST"):
        json.loads((VERIF / "schemas" / f"{s}.schema.json").read_text())
    man = VERIF / "MANIFEST.json"
    if man.exists():
        jsonschema.validate(
            json.loads(man.read_text()),
            json.loads((VERIF / "schemas" / "MANIFEST.schema.json").read_text()),
        )
    print(
        f"selftest ok: measured from {f}; {len(w.containers)} containers, "
        f"{len(w.caches)} caches, {len(w.instances())} interned objects, "
        f"{len(w.decls)} recorded declarations"
    )
    return 0


def main(argv=None) -> int:
    ap = argparse.ArgumentParser()
    ap.add_argument("pid", nargs="?")
    ap.add_argument("--tier", default=os.environ.get("VERIF_TIER", "quick"))
    ap.add_argument("--replay")
    ap.add_argument("--selftest", action="store_true")
    a = ap.parse_args(argv)
    try:
        if a.selftest:
            return selftest()
        if not a.pid or a.pid not in LEVELS:
            print("usage: check <C01..C20> [--tier quick|thorough] [--replay file]")
            return 2
        if a.tier not in ("quick", "thorough"):
            a.tier = "quick"
        assert_repo()
        mod = importlib.import_module(f"mc.checks.{a.pid.lower()}")
        if a.replay:
            obj = json.loads(open(a.replay).read())
            violated, observation = mod.replay(obj["replay"], obj.get("kind"))
            print(f"replay {a.replay}: kind={obj.get('kind')} key={obj.get('key')}")
            print(f"observation: {observation}")
            if violated:
                print(f"VIOLATION property={a.pid} replay={a.replay}")
                return 1
            print("not reproduced")
            return 0
        rep = Reporter(a.pid, a.tier, LEVELS[a.pid])
        mod.run(rep, a.tier)
        return rep.finish(getattr(mod, "replay", None))
    except HarnessError as e:
        print(f"HARNESS-ERROR: {e}", file=sys.stderr)
        return 2
    except Exception:
        traceback.print_exc()
        print("HARNESS-ERROR: unexpected exception in the checker", file=sys.stderr)
        return 2


if __name__ == "__main__":
    sys.exit(main())

"""Reference models, written without reading results off the code (DESIGN §3.6)."""
from decimal import Decimal, getcontext
from fractions import Fraction

getcontext().prec = 60

ANCHORS = [
    ("measured", "One"),
    ("measured.si", "Meter"),
    ("measured.si", "Second"),
    ("measured.si", "Gram"),
    ("measured.si", "Coulomb"),
    ("measured.si", "Kelvin"),
    ("measured.si", "Mole"),
    ("measured.si", "Candela"),
    ("measured.si", "Radian"),
    ("measured.iec", "Bit"),
]


def D(x):
    """The decimal the author wrote: ints exactly, floats through repr."""
    if isinstance(x, Decimal):
        return x
    if isinstance(x, int):
        return Decimal(x)
    if isinstance(x, Fraction):
        return Decimal(x.numerator) / Decimal(x.denominator)
    return Decimal(repr(x))


def dpow(x: Decimal, e) -> Decimal:
    if isinstance(e, int):
        return x**e
    if isinstance(e, Fraction):
        if e.denominator == 1:
            return x ** int(e)
        return (x.ln() * Decimal(e.numerator) / Decimal(e.denominator)).exp()
    return (x.ln() * D(e)).exp()


def prefix_value(p) -> Decimal:
    if p.base == 0 or p.exponent == 0:
        return Decimal(1)
    return dpow(Decimal(p.base), p.exponent if isinstance(p.exponent, int) else D(p.exponent))


class SizeOracle:
    """Solve `1 u = size(u) * (coherent product of anchor units)` for every base unit from
    the recorded declarations, in 60-digit decimal arithmetic, by propagation from the
    anchors.  Every declaration not used to determine an unknown yields a residual."""

    def __init__(self, world, decls=None):
        import importlib

        self.w = world
        self.decls = list(world.decls if decls is None else decls)
        self.size = {}  # base unit object -> Decimal
        self.why = {}  # base unit -> index of the declaration that determined it
        for mod, name in ANCHORS:
            try:
                u = getattr(importlib.import_module(mod), name)
            except Exception:
                continue
            self.size[u] = Decimal(1)
            self.why[u] = None
        self.equations = []  # (index, kind, lhs unit, lhs mag, rhs unit, rhs mag)
        for i, d in enumerate(self.decls):
            if d[0] == "equate":
                _, a, b = d
                self.equations.append((i, "equate", a.unit, D(a.magnitude), b.unit, D(b.magnitude)))
            else:
                _, scale, zero = d
                # a scale's degree has the size of the zero point's unit
                self.equations.append((i, "translate", scale, Decimal(1), zero.unit, Decimal(1)))
        self.solve()

    def _terms(self, unit):
        """(known multiplier, {unknown base unit: exponent})"""
        k = prefix_value(unit.prefix)
        unknown = {}
        for f, e in unit.factors.items():
            if f in self.size:
                k *= dpow(self.size[f], e)
            else:
                unknown[f] = unknown.get(f, 0) + e
        return k, unknown

    def solve(self):
        self.used = set()
        progress = True
        while progress:
            progress = False
            for i, kind, lu, lm, ru, rm in self.equations:
                if i in self.used:
                    continue
                lk, lun = self._terms(lu)
                rk, run = self._terms(ru)
                unk = dict(lun)
                for f, e in run.items():
                    unk[f] = unk.get(f, 0) - e
                unk = {f: e for f, e in unk.items() if e != 0}
                if len(unk) != 1:
                    continue
                (f, e), = unk.items()
                # lm*lk*x^e_l = rm*rk*x^e_r  ->  x^(e) = rm*rk/(lm*lk)
                val = (rm * rk) / (lm * lk)
                self.size[f] = dpow(val, Fraction(1, e)) if e != 1 else val
                self.why[f] = i
                self.used.add(i)
                progress = True

    def unit_size(self, unit):
        k, unk = self._terms(unit)
        if unk:
            return None
        return k

    def residuals(self):
        """For every declaration whose two sides are fully solved: relative disagreement,
        degree (total |exponent|), and the declaration index."""
        out = []
        for i, kind, lu, lm, ru, rm in self.equations:
            ls, rs = self.unit_size(lu), self.unit_size(ru)
            if ls is None or rs is None:
                out.append((i, None, None))
                continue
            lhs, rhs = lm * ls, rm * rs
            rel = abs(lhs / rhs - 1)
            deg = max(
                1,
                sum(abs(e) for e in lu.factors.values()),
                sum(abs(e) for e in ru.factors.values()),
            )
            out.append((i, rel, deg))
        return out

    def unsolved_bases(self):
        return [u for u in self.w.m.Unit._known.values() if self.w.is_base(u) and u not in self.size]


def degree(*units):
    return max(1, *[sum(abs(e) for e in u.factors.values()) for u in units])


# ------------------------------------------------------------------ group model


def nf_mul(a, b):
    out = dict(a)
    for k, v in b.items():
        out[k] = out.get(k, 0) + v
    return {k: v for k, v in out.items() if v != 0}


def nf_pow(a, n):
    return {k: v * n for k, v in a.items() if v * n != 0}


def nf_root(a, n):
    """None when the root is not defined in the free abelian group."""
    if n == 0:
        return {}
    if any(v % n != 0 for v in a.values()):
        return None
    return {k: v // n for k, v in a.items() if v // n != 0}


def nf_key(a):
    return tuple(sorted(a.items()))

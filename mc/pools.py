"""Unit pools and shape builders shared by the enumeration checks."""
import importlib
import itertools


def imp(mod, name):
    return getattr(importlib.import_module(mod), name)


POOL = [
    ("measured.si", "Meter"),
    ("measured.us", "Foot"),
    ("measured.us", "Inch"),
    ("measured.us", "Mile"),
    ("measured.si", "Second"),
    ("measured.si", "Hour"),
    ("measured.si", "Gram"),
    ("measured.si", "Kilogram"),
    ("measured.avoirdupois", "Pound"),
    ("measured.si", "Liter"),
    ("measured.us", "Gallon"),
    ("measured.us", "Acre"),
    ("measured.si", "Newton"),
    ("measured.us", "PoundForce"),
    ("measured.si", "Joule"),
    ("measured.energy", "BritishThermalUnit"),
    ("measured.si", "Watt"),
    ("measured.energy", "Horsepower"),
    ("measured.si", "Hertz"),
    ("measured.us", "PSI"),
    ("measured.si", "Pascal"),
]


def pool_units(pool=POOL):
    return [imp(*p) for p in pool]


def shape_specs(n, single_exps=(1, -1, 2, -2, 3), pair_exps=(1, -1, 2, -2)):
    """Specs: tuples of (pool index, exponent)."""
    specs = [((i, e),) for i in range(n) for e in single_exps]
    for i, j in itertools.combinations(range(n), 2):
        for a in pair_exps:
            for b in pair_exps:
                specs.append(((i, a), (j, b)))
    return specs


def build(units, spec, prefix=None):
    u = None
    for i, e in spec:
        t = units[i] ** e
        u = t if u is None else u * t
    if prefix is not None:
        u = prefix * u
    return u


def spec_name(pool, spec):
    return "*".join(f"{pool[i][1]}^{e}" for i, e in spec)


def group_by_dimension(units, specs):
    groups = {}
    for s in specs:
        u = build(units, s)
        groups.setdefault(tuple(u.dimension.exponents), []).append(s)
    return groups

"""ScheduleExplorer: every interleaving of real threads, at line granularity, up to a
preemption bound (iterative context bounding), DESIGN §3.4.

Real `threading.Thread`s; `sys.settrace` installed inside each worker thread; every `line`
event in a frame whose file is under the traced source directory (excluding _parser.py) is
a scheduling point where the thread hands a baton back to the controller and blocks.  Only
one thread ever runs between two points, so the OS / GIL scheduler decides nothing.

Locks: any `threading.Lock`/`RLock` object found in the `measured` module namespaces is
replaced by a cooperative lock whose acquire is a scheduling point and whose blocked
waiters are not enabled; "no enabled thread while some are alive" is a deadlock.
"""
import os
import sys
import threading

from .common import HarnessError


class CoopLock:
    """Cooperative (re-entrant) lock driven by the scheduler."""

    def __init__(self, sched, reentrant=True):
        self.sched = sched
        self.owner = None
        self.depth = 0
        self.reentrant = reentrant

    def acquire(self, blocking=True, timeout=-1):
        s = self.sched
        tid = s.current_tid()
        if tid is None:  # not one of the scheduled threads: uncontended by construction
            self.owner, self.depth = "outside", self.depth + 1
            return True
        while True:
            if self.owner is None or (self.owner == tid and self.reentrant):
                self.owner = tid
                self.depth += 1
                return True
            if not blocking:
                return False
            s.block_on(tid, self)

    def release(self):
        self.depth -= 1
        if self.depth == 0:
            self.owner = None

    __enter__ = acquire

    def __exit__(self, *a):
        self.release()

    def locked(self):
        return self.owner is not None


class Point:
    __slots__ = ("enabled", "running", "chosen")

    def __init__(self, enabled, running, chosen):
        self.enabled = enabled
        self.running = running
        self.chosen = chosen


class Execution:
    def __init__(self):
        self.points = []
        self.choices = []
        self.trace = []
        self.results = {}
        self.errors = {}
        self.deadlock = False

    def preemptions_before(self, i):
        n = 0
        for p in self.points[:i]:
            if p.running is not None and p.running in p.enabled and p.enabled[p.chosen] != p.running:
                n += 1
        return n


class Scheduler:
    def __init__(self, src_dir, max_steps=20000):
        self.src_dir = os.path.realpath(src_dir) + os.sep
        self.max_steps = max_steps
        self.step_timeout = 20
        self._file_ok = {}
        self._tids = {}

    # ---- called from worker threads
    def current_tid(self):
        return self._tids.get(threading.get_ident())

    def _traced(self, filename):
        ok = self._file_ok.get(filename)
        if ok is None:
            rp = os.path.realpath(filename)
            ok = rp.startswith(self.src_dir) and not rp.endswith("_parser.py")
            self._file_ok[filename] = ok
        return ok

    def _global_trace(self, frame, event, arg):
        if event == "call" and self._traced(frame.f_code.co_filename):
            return self._local_trace
        return None

    def _local_trace(self, frame, event, arg):
        if event == "line":
            tid = self._tids.get(threading.get_ident())
            if tid is not None:
                self._where[tid] = (frame.f_code.co_name, frame.f_lineno)
                self._ctl.release()
                self._sem[tid].acquire()
        return self._local_trace

    def block_on(self, tid, lock):
        self._blocked[tid] = lock
        self._where[tid] = ("<blocked on lock>", 0)
        self._ctl.release()
        self._sem[tid].acquire()
        self._blocked.pop(tid, None)

    def _thread_main(self, tid, body):
        self._tids[threading.get_ident()] = tid
        self._ctl.release()  # announce "ready"
        self._sem[tid].acquire()
        sys.settrace(self._global_trace)
        try:
            self._results[tid] = body()
        except BaseException as e:  # noqa
            self._errors[tid] = e
        finally:
            sys.settrace(None)
            self._done[tid] = True
            self._ctl.release()

    # ---- controller
    def run(self, bodies, prefix=()):
        n = len(bodies)
        self._sem = [threading.Semaphore(0) for _ in range(n)]
        self._ctl = threading.Semaphore(0)
        self._where = [("<start>", 0)] * n
        self._done = [False] * n
        self._results = {}
        self._errors = {}
        self._blocked = {}
        self._tids = {}
        threads = [threading.Thread(target=self._thread_main, args=(i, b), daemon=True) for i, b in enumerate(bodies)]
        for t in threads:
            t.start()
        for _ in threads:
            self._ctl.acquire()
        x = Execution()
        running = None
        step = 0
        while not all(self._done):
            alive = [i for i in range(n) if not self._done[i]]
            enabled = [
                i for i in alive
                if i not in self._blocked or self._blocked[i].owner is None
            ]
            if not enabled:
                x.deadlock = True
                break
            if running in enabled:
                enabled = [running] + [i for i in enabled if i != running]
            k = prefix[step] if step < len(prefix) else 0
            if k >= len(enabled):
                raise HarnessError(
                    f"divergent replay: choice {k} at step {step} but only {len(enabled)} enabled threads"
                )
            t = enabled[k]
            x.points.append(Point(enabled, running, k))
            x.choices.append(k)
            running = t
            self._sem[t].release()
            if not self._ctl.acquire(timeout=self.step_timeout):
                import faulthandler

                faulthandler.dump_traceback(all_threads=True)
                raise HarnessError(
                    f"thread {t} did not reach its next scheduling point within {self.step_timeout}s "
                    f"(blocked on something the scheduler does not own?) after trace tail {x.trace[-6:]}; "
                    f"choices {x.choices}"
                )
            x.trace.append((t,) + tuple(self._where[t]) if not self._done[t] else (t, "<done>", 0))
            step += 1
            if step > self.max_steps:
                raise HarnessError("execution exceeded the step horizon (livelock?)")
        if not x.deadlock:
            for t in threads:
                t.join(timeout=10)
        x.results = dict(self._results)
        x.errors = dict(self._errors)
        return x


def install_coop_locks(sched, modules):
    """Replace real locks living in the library's module namespaces (see module docstring)."""
    lock_types = (type(threading.Lock()), type(threading.RLock()))
    replaced = []
    for mod in modules:
        for name, val in list(vars(mod).items()):
            if isinstance(val, lock_types):
                setattr(mod, name, CoopLock(sched, reentrant=isinstance(val, lock_types[1])))
                replaced.append(f"{mod.__name__}.{name}")
            elif isinstance(val, type) and getattr(val, "__module__", "").startswith("measured"):
                for n2, v2 in list(vars(val).items()):
                    if isinstance(v2, lock_types):
                        setattr(val, n2, CoopLock(sched, reentrant=isinstance(v2, lock_types[1])))
                        replaced.append(f"{val.__name__}.{n2}")
    return replaced


class ScheduleExplorer:
    """Iterative context bounding over Scheduler.run."""

    def __init__(self, sched, make_bodies, check, reset, bound):
        self.sched = sched
        self.make_bodies = make_bodies
        self.check = check
        self.reset = reset
        self.bound = bound
        self.executions = 0
        self.violations = []
        self.outcomes = {}
        self.max_points = 0

    def run_one(self, prefix):
        self.reset()
        x = self.sched.run(self.make_bodies(), prefix)
        self.executions += 1
        self.max_points = max(self.max_points, len(x.points))
        oc, viol = self.check(x)
        self.outcomes[oc] = self.outcomes.get(oc, 0) + 1
        if viol and len(self.violations) < 50:
            self.violations.append((viol, list(x.choices)))
        return x

    def alternatives(self, x, start):
        """(i, alt) pairs below `start` is not revisited; cost within the bound."""
        out = []
        for i in range(start, len(x.points)):
            p = x.points[i]
            if len(p.enabled) < 2:
                continue
            before = x.preemptions_before(i)
            for alt in range(1, len(p.enabled)):
                cost = before + (1 if (p.running is not None and p.running in p.enabled) else 0)
                if cost > self.bound:
                    continue
                out.append(x.choices[:i] + [alt])
        return out

    def explore(self, prefix):
        x = self.run_one(prefix)
        for child in self.alternatives(x, len(prefix)):
            self.explore(child)

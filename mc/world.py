"""World: ownership of measured's process-global state (DESIGN §3.1).

load -> discover (generic, not a hard-coded list) -> snapshot / restore (in place) ->
canonical forms built from names, never from id().
"""
import importlib
import sys
import types

from .common import HarnessError, assert_repo, digest


def _copy_container(c):
    if isinstance(c, dict) and any(isinstance(v, dict) and any(isinstance(x, (dict, list, set)) for x in v.values()) for v in c.values()):
        return _deep_copy_container(c)
    if isinstance(c, dict):
        out = {}
        for k, v in c.items():
            if isinstance(v, dict):
                v = dict(v)
            elif isinstance(v, list):
                v = list(v)
            elif isinstance(v, set):
                v = set(v)
            out[k] = v
        return out
    if isinstance(c, list):
        return list(c)
    if isinstance(c, set):
        return set(c)
    raise TypeError(type(c))


def _restore_container(c, saved):
    if isinstance(c, dict):
        c.clear()
        for k, v in saved.items():
            if isinstance(v, dict):
                v = dict(v)
            elif isinstance(v, list):
                v = list(v)
            elif isinstance(v, set):
                v = set(v)
            c[k] = v
    elif isinstance(c, list):
        c[:] = saved
    elif isinstance(c, set):
        c.clear()
        c.update(saved)


def flat(container, depth=0):
    """Leaves of a registry, whatever its nesting ({key: obj} today; {a: {b: obj}} after a
    refactor): dict / list / set / tuple levels are descended, anything else is a leaf."""
    if isinstance(container, dict):
        container = container.values()
    for v in list(container):
        if isinstance(v, (dict, list, set, tuple)) and depth < 4:
            yield from flat(v, depth + 1)
        else:
            yield v


def _deep_copy_container(c, depth=0):
    if isinstance(c, dict):
        return {k: (_deep_copy_container(v, depth + 1) if isinstance(v, (dict, list, set)) and depth < 4 else v) for k, v in c.items()}
    if isinstance(c, list):
        return list(c)
    if isinstance(c, set):
        return set(c)
    return c


class Snapshot:
    __slots__ = ("containers", "instances", "decimal_context")


class World:
    def __init__(self, modules=("measured.systems",), record=True):
        assert_repo()
        import measured
        from measured import conversions

        self.m = measured
        self.conv = conversions
        self.decls = []  # recorded declarations, in order, including overwritten ones
        self.recording = True
        if record:
            self._wrap()
        for name in modules:
            importlib.import_module(name)
        self.discover()
        self.clear_caches()
        self.base = self.snapshot()

    # ------------------------------------------------------------ declarations
    def _wrap(self):
        conv = self.conv
        if getattr(conv.equate, "_verif_wrapped", False):
            return
        orig_equate, orig_translate = conv.equate, conv.translate
        world = self

        def equate(a, b):
            if world.recording:
                world.decls.append(("equate", a, b))
            return orig_equate(a, b)

        def translate(scale, zero):
            if world.recording:
                world.decls.append(("translate", scale, zero))
            return orig_translate(scale, zero)

        equate._verif_wrapped = True
        translate._verif_wrapped = True
        equate.__wrapped__ = orig_equate
        translate.__wrapped__ = orig_translate
        conv.equate = equate
        conv.translate = translate

    # ------------------------------------------------------------ discovery
    def classes(self):
        m = self.m
        return [m.Dimension, m.Prefix, m.Unit, m.Logarithm, m.LogarithmicUnit]

    def discover(self):
        m = self.m
        self.containers = []  # (label, object)
        self.owners = []  # (owner, attribute, container object): to undo a rebinding
        for cls in self.classes():
            for name, val in vars(cls).items():
                if isinstance(val, (dict, list, set)) and not name.startswith("__"):
                    self.containers.append((f"{cls.__name__}.{name}", val))
                    self.owners.append((cls, name, val))
        for modname, mod in sorted(sys.modules.items()):
            if not (modname == "measured" or modname.startswith("measured.")):
                continue
            if mod is None or modname.endswith("._parser"):
                continue
            for name, val in vars(mod).items():
                if name.startswith("__"):
                    continue
                if isinstance(val, (dict, list, set)):
                    self.containers.append((f"{modname}.{name}", val))
                    self.owners.append((mod, name, val))
        self.caches = []
        seen = set()

        def consider(label, obj):
            obj = getattr(obj, "__func__", obj)
            if hasattr(obj, "cache_clear") and id(obj) not in seen:
                seen.add(id(obj))
                self.caches.append((label, obj))

        for modname, mod in sorted(sys.modules.items()):
            if not (modname == "measured" or modname.startswith("measured.")):
                continue
            if mod is None or modname.endswith("._parser"):
                continue
            for name, val in list(vars(mod).items()):
                consider(f"{modname}.{name}", val)
                if isinstance(val, type) and val.__module__.startswith("measured"):
                    for n2, v2 in vars(val).items():
                        consider(f"{val.__name__}.{n2}", v2)
        labels = {l for l, _ in self.containers}
        for need in (
            "Dimension._known",
            "Prefix._known",
            "Unit._known",
            "Unit._by_name",
            "Unit._by_symbol",
            "Prefix._by_symbol",
            "measured.conversions._ratios",
            "measured.conversions._offsets",
        ):
            if need not in labels:
                raise HarnessError(f"state container {need} disappeared")
        if not self.caches:
            # not an error in itself (a tree without memoisation is fine)
            pass

    def instances(self):
        out = []
        seen = set()
        for cls in self.classes():
            for obj in flat(cls._known):
                if isinstance(obj, cls) and id(obj) not in seen:
                    seen.add(id(obj))
                    out.append(obj)
        return out

    # ------------------------------------------------------------ snapshot / restore
    def clear_caches(self):
        for _, c in self.caches:
            c.cache_clear()

    def snapshot(self):
        s = Snapshot()
        s.containers = [(c, _copy_container(c)) for _, c in self.containers]
        inst = []
        for obj in self.instances():
            slots = getattr(type(obj), "__slots__", None)
            if slots:
                attrs = [(k, getattr(obj, k)) for k in slots if hasattr(obj, k)]
            else:
                attrs = list(vars(obj).items())
            attrs = [(k, dict(v) if isinstance(v, dict) else v) for k, v in attrs]
            inst.append((obj, attrs, not slots))
        s.instances = inst
        import decimal

        s.decimal_context = decimal.getcontext().copy()
        return s

    def restore(self, snap=None):
        snap = snap or self.base
        for owner, name, obj in self.owners:
            # a registry that was replaced by a new object (copy-on-write) is bound back to
            # the object whose contents are restored below
            if getattr(owner, name, None) is not obj:
                setattr(owner, name, obj)
        for c, saved in snap.containers:
            _restore_container(c, saved)
        for obj, attrs, has_dict in snap.instances:
            if has_dict:
                d = vars(obj)
                if len(d) != len(attrs):
                    d.clear()
            for k, v in attrs:
                setattr(obj, k, dict(v) if isinstance(v, dict) else v)
        import decimal

        ctx = getattr(snap, "decimal_context", None)
        if ctx is not None:
            # process-global state the library may touch too (a context left wider by one
            # execution must not leak into the next)
            decimal.setcontext(ctx.copy())
        self.clear_caches()

    # ------------------------------------------------------------ canonical forms
    def base_name(self, u):
        """Stable name of a base unit (its own sole factor)."""
        if u.names:
            return u.names[0]
        return f"<anon:{self.dimkey(u.dimension)}>"

    def is_base(self, u):
        f = u.factors
        return len(f) == 1 and next(iter(f)) is u

    def ukey(self, u):
        """Name-based structural key of a unit: (prefix, sorted (base-unit, exponent))."""
        p = u.prefix
        return (
            (p.base, p.exponent),
            tuple(sorted((self.base_name(f), e) for f, e in u.factors.items())),
        )

    def dimkey(self, d):
        return tuple(d.exponents)

    def ustr(self, u):
        (b, e), fs = self.ukey(u)
        pre = "" if e == 0 else f"{b}^{e}*"
        return pre + "*".join(f"{n}^{x}" for n, x in fs)

    def registry_canon(self):
        m = self.m
        units = sorted(
            (
                (self.ukey(u), self.dimkey(u.dimension), tuple(u.names), tuple(u.symbols))
                for u in m.Unit._known.values()
            ),
            key=repr,
        )
        def keyed(cls):
            # (registry key, object) where the registry is flat, (None, object) otherwise
            items = list(cls._known.items())
            if all(isinstance(v, cls) for _, v in items):
                return items
            return [(None, v) for v in flat(cls._known) if isinstance(v, cls)]

        dims = sorted(
            ((k, d.name, d.symbol, tuple(d.exponents)) for k, d in keyed(m.Dimension)),
            key=repr,
        )
        prefixes = sorted(
            ((k, p.name, p.symbol, (p.base, p.exponent)) for k, p in keyed(m.Prefix)), key=repr
        )
        by = {
            "Unit._by_name": sorted((n, self.ukey(u)) for n, u in m.Unit._by_name.items()),
            "Unit._by_symbol": sorted(
                (n, self.ukey(u)) for n, u in m.Unit._by_symbol.items()
            ),
            "Prefix._by_name": sorted(
                (n, (p.base, p.exponent)) for n, p in m.Prefix._by_name.items()
            ),
            "Prefix._by_symbol": sorted(
                (n, (p.base, p.exponent)) for n, p in m.Prefix._by_symbol.items()
            ),
            "Dimension._by_name": sorted(
                (n, tuple(d.exponents)) for n, d in m.Dimension._by_name.items()
            ),
            "Unit._base": sorted(self.ukey(u) for u in m.Unit._base),
            "Dimension._fundamental": [tuple(d.exponents) for d in m.Dimension._fundamental],
        }
        ratios = sorted(
            (
                (self.ukey(a), self.ukey(b), repr(r))
                for a, inner in self.conv._ratios.items()
                for b, r in inner.items()
            ),
            key=repr,
        )
        offsets = sorted(
            (
                (self.ukey(a), self.ukey(b), repr(r))
                for a, inner in self.conv._offsets.items()
                for b, r in inner.items()
            ),
            key=repr,
        )
        logs = sorted(
            (
                (repr(l.base), (l.prefix.base, l.prefix.exponent), l.name, l.symbol)
                for l in flat(m.Logarithm._known)
                if isinstance(l, m.Logarithm)
            ),
            key=repr,
        )
        return {
            "units": units,
            "dims": dims,
            "prefixes": prefixes,
            "by": by,
            "ratios": ratios,
            "offsets": offsets,
            "logs": logs,
            "n_logunits": sum(1 for _ in flat(m.LogarithmicUnit._known)),
        }

    def registry_digest(self):
        return digest(self.registry_canon())

    def cache_sizes(self):
        return {l: c.cache_info().currsize for l, c in self.caches}


_WORLD = None


def get_world(modules=("measured.systems",)):
    global _WORLD
    if _WORLD is None:
        _WORLD = World(modules)
    return _WORLD

#!/venv/bin/python
"""Run the repository's baseline test command (BASELINE.json, guard off) and compare with
the stable_pass list.  Exit 0 iff every stable test passed.  usage: baseline.py [repo_dir]"""
import json, os, subprocess, sys, tempfile
import xml.etree.ElementTree as ET

repo = sys.argv[1] if len(sys.argv) > 1 else "/repo"
base = json.load(open("/root/.vp/BASELINE.json"))
stable = set(base["stable_pass"])
with tempfile.TemporaryDirectory() as td:
    xml = os.path.join(td, "r.xml")
    env = dict(os.environ)
    env.pop("MEASURED_VERIF", None)
    env["PATH"] = "/venv/bin:" + env.get("PATH", "")
    if repo != "/repo":
        env["PYTHONPATH"] = os.path.join(repo, "src")
    cmd = ["/venv/bin/python", "-m", "pytest", "-ra", "-q", "-p", "no:cacheprovider",
           "--timeout=900", "--continue-on-collection-errors", f"--junitxml={xml}"]
    p = subprocess.run(cmd, cwd=repo, env=env, capture_output=True, text=True)
    passed = set()
    for tc in ET.parse(xml).getroot().iter("testcase"):
        if not any(c.tag in ("failure", "error", "skipped") for c in tc):
            passed.add(f"{tc.get('classname')}::{tc.get('name')}")
missing = sorted(stable - passed)
import shutil
shutil.rmtree(os.path.join(repo, ".hypothesis", "examples"), ignore_errors=True)
if missing and len(missing) <= 5:
    # hypothesis-driven tests are randomly seeded; re-run the few failures alone twice
    ids = [m.replace(".", "/", m.split("::")[0].count(".")).replace("::", ".py::", 1) for m in missing]
    still = set(missing)
    for _ in range(2):
        env2 = dict(os.environ); env2["PATH"] = "/venv/bin:" + env2.get("PATH", "")
        if repo != "/repo":
            env2["PYTHONPATH"] = os.path.join(repo, "src")
        for m, tid in zip(missing, ids):
            r = subprocess.run(["/venv/bin/python", "-m", "pytest", "-q", "-p", "no:cacheprovider", "-n0", "--no-cov", tid],
                               cwd=repo, env=env2, capture_output=True, text=True)
            shutil.rmtree(os.path.join(repo, ".hypothesis", "examples"), ignore_errors=True)
            if r.returncode == 0:
                still.discard(m)
                print("  flaky (passed on re-run):", m)
    missing = sorted(still)
print(f"stable={len(stable)} passed_now={len(passed)} stable_missing={len(missing)}")
for m in missing[:30]:
    print("  NOT PASSING:", m)
sys.exit(1 if missing else 0)

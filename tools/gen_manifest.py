#!/venv/bin/python
"""Regenerate /verif/MANIFEST.json from the table below; a property whose check module does
not exist (yet) is listed under not_applicable instead of being claimed."""
import json
import os
import sys

HERE = os.path.dirname(os.path.dirname(os.path.abspath(__file__)))

ENGINES = [
    {
        "name": "HistoryExplorer",
        "path": "mc/explore.py",
        "serves_properties": ["C01", "C08", "C19"],
        "kind_free_text": "explicit-state breadth-first search; a state is the event history that reaches it, rebuilt on the real library by World.restore()+replay; whole-world invariant after every transition; canonical-form deduplication; 16 forked workers",
    },
    {
        "name": "World",
        "path": "mc/world.py",
        "serves_properties": ["C01", "C02", "C08", "C13", "C15", "C17", "C19", "C20"],
        "kind_free_text": "generic discovery + in-place snapshot/restore of measured's process-global state (intern tables, registries, conversion tables, every lru_cache); name-based canonical forms; self-validated against brand-new interpreters",
    },
    {
        "name": "BoundedEnumerator",
        "path": "mc/common.py",
        "serves_properties": ["C02", "C03", "C04", "C05", "C06", "C07", "C10", "C11", "C12", "C13", "C14", "C15", "C17", "C18"],
        "kind_free_text": "(pmap/chunked/rotate in mc/common.py, unit-shape spaces in mc/convspace.py and mc/pools.py, oracles in mc/models.py) complete enumeration of a finite product of input shapes (unit shapes, prefixes, exponents, operators, magnitude classes) against reference models written independently of the code (free abelian group normal forms, exact-arithmetic unit sizes solved from intercepted declarations, closed-form affine / logarithmic / Gaussian formulas)",
    },
    {
        "name": "ScheduleExplorer",
        "path": "mc/sched.py",
        "serves_properties": ["C20"],
        "kind_free_text": "stateless exploration of all interleavings of real threads up to a preemption bound (iterative context bounding) with a sys.settrace line-granular cooperative scheduler; deterministic replay of schedules",
    },
    {
        "name": "LalrProduct",
        "path": "mc/lalr.py",
        "serves_properties": ["C16"],
        "kind_free_text": "explicit-state product of two LALR(1) automata (shipped tables vs tables generated now from measured.lark), complete over reachable state pairs x symbols, plus bounded all-strings / all-token-sequences differential runs binding the model to the embedded runtime",
    },
]

C = {}


def check(pid, category, text, note, technique, engine, design):
    C[pid] = dict(
        category=category, text=text, note=note, technique=technique, engine=engine, design=design
    )


check(
    "C01",
    "model_checking",
    "Explicit-state BFS over histories of real public operations (constructors, roots, ratio splitting, every renderer, parsing, conversion, (de)serialization, quantity-level twins) from a restored baseline, checking after every transition that EVERY interned unit's dimension equals the group-model product of its base factors' dimensions; plus a one-step sweep over a unit box x all construction orders x all observers, and a two-process leg (dump here, load in a fresh interpreter). All histories up to the stated depth are covered, not sampled.",
    "Bounds: depth 2 with the full event menu and depth 3 with the core menu (quick: 4 seeds, thorough: 6 seeds); |exponent|<=4, <=4 factors; base units' own dimensions trusted; CPython 3.12 single-threaded. snapshot/restore is validated by re-running depth-1 and sampled deepest-level histories in brand-new interpreters. The event menu includes defining a new fundamental dimension; a unit's dimension must be THE interned object for its exponents, as wide as Number.",
    "explicit-state BFS over operation histories on the real library, whole-intern-table invariant",
    "HistoryExplorer",
    "DESIGN.md §4 C01",
)
check(
    "C02",
    "model_checking",
    "Explicit-state exploration of the group elements (interned objects) reachable by the real operators (*, /, **n, root, prefix application) from generator sets of dimensions, prefixes and units: closure by expression height (height 2 complete from three generator orders; height 3 with one operand of height <= 1, i.e. every expression tree with <= 4 leaves) plus exponent boxes (all ordered pairs) plus the eleven named laws instantiated over everything reached; every transition is compared with an independent free-abelian-group normal form: equal normal form <=> same object.",
    "Bounds: heights and boxes as stated in the evidence (units at height 3 only in the thorough tier); generators include freshly defined base units, named derived units and SI/IEC prefixes; expressions whose leaves carry prefixes of both bases are compared numerically at 1e-9 (factors exactly). A violation is replayed by re-running the deterministic exploration job that found it. One exploration order defines a new fundamental dimension between level 1 and level 2; the prefix box and the unit generators include exponents beyond the float range (10^-330, 10^-400, 2^-1100).",
    "explicit-state exploration of reachable group elements (height-bounded closure of real operators) vs a free-abelian-group normal form, object identity",
    "BoundedEnumerator",
    "DESIGN.md §4 C02",
)
check(
    "C03",
    "exploration",
    "Complete product operator x operand kind (quantity/unit/number, both operand orders) x magnitude type x unit pool; result dimension, magnitude type, left-unit rule and the exception class for incommensurables are compared with a dimension-vector model.",
    "Magnitude alphabet finite (both signs, int/float/Decimal); zero divisors and even roots of negatives excluded from the alphabet.",
    "exhaustive enumeration of operator x operand-shape product vs dimension-vector model",
    "BoundedEnumerator",
    "DESIGN.md §4 C03",
)
check(
    "C04",
    "exploration",
    "Every ordered pair of equal-dimension unit shapes (tiers T1-T4 over all shipped modules, powers, prefixes, products, quotients, named derived units vs their spellings) and every connected definition graph on 4 synthetic units: whenever in_unit returns, unit identity and magnitude are compared with sizes solved independently, in exact arithmetic, from the intercepted declarations.",
    "Tolerance 1e-5 per degree on shipped definitions, exact on power-of-two synthetic systems (which also hold opaque speed / frequency units and quotient-defined units in numerators, denominators and cancelling positions); units whose size differs by more than 1e-5 between two derivations from the declarations (C09 finding) and offset scales are excluded and named in the evidence. Further tiers: both sides made of the same units with different exponents (T2s), factors that combine into another dimension with prefixes on either side (T5); each pair is evaluated for 3, Decimal(3), 2.5, Decimal(1.5) in one restored state.",
    "exhaustive enumeration of unit-shape pairs and definition-graph configurations vs exact size oracle",
    "BoundedEnumerator",
    "DESIGN.md §4 C04",
)
check(
    "C05",
    "exploration",
    "All ordered triples of equal-dimension units from the C04 pools x magnitude alphabet x scale factors: homogeneity, zero, sign, identity, round trip and route independence relations.",
    "Relations only (no expected numbers); offset scales excluded (C10).",
    "exhaustive enumeration of unit triples x magnitudes, algebraic relations as oracle",
    "BoundedEnumerator",
    "DESIGN.md §4 C05",
)
check(
    "C06",
    "exploration",
    "All pairs of physical values x every re-expression (unit, SI and IEC prefixes) of each operand x operators + - * / ** == <: the SI value of the result must equal the operation on SI values; comparisons must agree with SI values (separated pairs) or with construction (exactly equal pairs).",
    "Ties are constructed, not filtered: values are separated by >=1e-4 relative or exactly equal by construction (prefix-only re-expressions with integer magnitudes, non-negative integer powers of one base). Products are also observed through the library (unprefixed(), comparisons), with extreme mixed SI/IEC prefixes and prefixed dimensionless operands; temperatures: comparisons, and sums / differences with the right operand re-expressed on every scale; a unit compared before its equivalence is declared.",
    "exhaustive enumeration of re-expressions of operand pairs vs SI-value oracle",
    "BoundedEnumerator",
    "DESIGN.md §4 C06",
)
check(
    "C07",
    "exploration",
    "Every ordered pair of equal-dimension one- and two-factor units over a pool drawn from all modules plus synthetic partially-connected systems, through in_unit, +, -, ==, <, sorted: only value / ConversionNotFound (== False, ordering TypeError) outcomes are allowed; the identical case list is executed under python and python -O in subprocesses and the outcome tables must be equal line by line.",
    "Chains long enough to exhaust the recursion limit (~900 hops) are outside the bound; synthetic chains up to 40 hops, prefixed shapes (prefix on source, target or both) and compound shapes over isolated / partially connected synthetic units are included; for those an island model of the synthetic definition graph says which pairs no chain of equivalences links, and such a pair must be refused (ConversionNotFound / == False / TypeError), never answered.",
    "exhaustive enumeration of unit pairs; differential run python vs python -O",
    "BoundedEnumerator",
    "DESIGN.md §4 C07",
)
check(
    "C08",
    "model_checking",
    "Explicit-state BFS over all interleavings of equivalence declarations and conversion/comparison queries (each real, on the real caches) up to the depth bound; at every visited state every menu query is evaluated and compared with the same query after the same declarations in a state with no query history (fresh interpreters provide the reference outcomes).",
    "Bounds: full menu (7 declarations, 18 queries incl. reverse directions and a statically declared system with an asymmetric planner) to depth 3 (quick) / 4 (thorough) plus a probe level (every query appended to every deepest state); core menu (chain of four units + shortcut, 4 queries) to depth 5 / 6 plus probe level; canonical state = declaration sequence + for each query the declaration counts at which it ran; only measured.si is loaded. Static part of the world: an asymmetric planner pair, a cycle whose two routes disagree on purpose, an inexact Decimal ratio; World also owns the decimal context.",
    "explicit-state BFS over declaration/query interleavings vs fresh-state reference",
    "HistoryExplorer",
    "DESIGN.md §4 C08",
)
check(
    "C09",
    "model_checking",
    "Complete exploration of the shipped definition graph (every recorded declaration including overwritten ones): BFS potential from SI anchors in 60-digit arithmetic, residual of every edge, all simple cycles up to length 6/8, duplicate-pair agreement, and conformance of the real converter against the potential for every named unit to and from coherent SI.",
    "Declarations are intercepted by wrapping conversions.equate/translate before the unit modules are imported; literals are read as the decimal the author wrote.",
    "explicit graph exploration of the definition graph (all edges, all bounded cycles) + conformance replay on the real converter",
    "World",
    "DESIGN.md §4 C09",
)
check(
    "C10",
    "exploration",
    "All 12 ordered pairs of K, degC, degF, R x prefixes on either side x magnitude alphabet: values, round trips, absolute zero, differences, and cross-scale == / < against the affine model in exact rationals.",
    "Tolerance 1e-9*max(1,|expected|,|offset|).",
    "exhaustive enumeration of scale pairs x prefixes x magnitudes vs exact affine model",
    "BoundedEnumerator",
    "DESIGN.md §4 C10",
)
check(
    "C11",
    "exploration",
    "All registered prefixes (and pairs) x unit pool x exponents [-4,4] x magnitude alphabet: the prefix identities as object identities (same base) or values (cross base).",
    "1e-12 same-base, 1e-9 cross-base; same-base results must carry integer exponents and exact quantify(); prefixed One as an operand; prefixes of powers stripped through the library (unprefixed()).",
    "exhaustive enumeration of prefix x unit x exponent product vs group + size model",
    "BoundedEnumerator",
    "DESIGN.md §4 C11",
)
check(
    "C12",
    "exploration",
    "All ordered pairs and triples from per-dimension pools of quantities (separated and exactly-equal re-expressions, int/float/Decimal), levels, measurements and approximately(): reflexivity, symmetry, trichotomy, mirror laws, sorted() of every permutation, hash contract.",
    "Away from ties by construction; pools: length, mass, time, information, area / volume / per-area written as powers of length units several declared hops apart, a temperature ordering pool (both signs on four scales), every named unit pair of a dimension at +-1e-3 of its declared ratio, and a mixed pool with measurements on four temperature scales judged by an interval model in kelvin.",
    "exhaustive enumeration of pairs/triples vs order/interval model",
    "BoundedEnumerator",
    "DESIGN.md §4 C12",
)
check(
    "C13",
    "exploration",
    "Every prefix x named unit x exponent, products/quotients over a pool, quantities over them, the full product of alternative spellings, and every import closure of the unit modules (fresh interpreters): Unit.parse(str(u)) is u (or same size and dimension), Quantity.parse(str(q)) == q, spellings agree, never a different physical value.",
    "Open findings are keyed by failure kind + input-side predicate (see known_findings.json). Configurations include staged ones (import some modules, full round trip, import the rest, round trip again) so that parse results must follow the registry rather than the parse history.",
    "exhaustive enumeration of prefix x unit x exponent x spelling product and module configurations",
    "BoundedEnumerator",
    "DESIGN.md §4 C13",
)
check(
    "C14",
    "exploration",
    "Measurand grid x uncertainty grid x magnitude types x operators (+ - * / with measurement/quantity on either side, **n for n in [-4,4]) x unit choices: measurand equals the plain operation, uncertainty equals first-order Gaussian propagation computed in exact arithmetic, compared in SI.",
    "Mathematically undefined cases excluded from the alphabet; 1e-9 relative.",
    "exhaustive enumeration of operator x operand grids vs exact Gaussian-propagation model",
    "BoundedEnumerator",
    "DESIGN.md §4 C14",
)
check(
    "C15",
    "exploration",
    "Every interned dimension, prefix and unit, the C13 unit space, and quantities over it with int/float/Decimal magnitudes through pickle (all protocols), copy, deepcopy, the JSON codecs, pydantic and the SQL composite form; plus two-process histories (dump here, load in a fresh interpreter).",
    "Quantity JSON inherits the C13 findings (unit stored as text), keyed by the same input-side classes; the loader process reports unusable interned objects and re-evaluates the defining expression for identity. Codecs: pickle 2-5, copy, deepcopy, explicit JSON codec, installed codecs (plain, with json.loads options, file API), pydantic python/json, SQL composite, __json__/__from_json__; magnitudes include integral and exponent-form Decimals.",
    "exhaustive enumeration of values x codecs, incl. two-process histories",
    "BoundedEnumerator",
    "DESIGN.md §4 C15",
)
check(
    "C16",
    "model_checking",
    "Complete product exploration of the shipped LALR automaton (deserialised from _parser.DATA/MEMO) against the automaton generated now from measured.lark: terminals, ignore set, rules and options, every reachable state pair x every symbol; an action-commuting bijection is an isomorphism, hence equal language and trees for ALL token sequences. Conformance: all token sequences up to length 6/8 and all character strings up to length 4/5 through both runtimes.",
    "Reference generator is Lark 1.3.1 (file was produced by 1.1.2): equality up to state renaming. The differential runs use long-lived parser objects as the library does (the first violation of a batch carries the batch history); the wide alphabet holds every member of WS and nine other blanks; an exception other than the parser's own, or a result that is not a tree, is a reported difference.",
    "explicit-state product of two LALR automata + bounded all-strings differential conformance",
    "LalrProduct",
    "DESIGN.md §4 C16",
)
check(
    "C17",
    "exploration",
    "Every string up to length 4 (quick) / 5 (thorough) over a 22-character alphabet covering every lexer class and 'arbitrary text', every token sequence up to length 7 with extreme lexemes, and all single-token mutations of accepted sequences, through Unit.parse and Quantity.parse: outcome class, determinism, registries unchanged, magnitude type.",
    "Strings longer than the bound are not covered; short token sequences are also rendered with the full product of lexemes per position (SI / IEC / byte-based / unknown symbols x small and 400-digit exponents). Registry changes are attributed to the rejected input responsible; accepted inputs are not constrained (as the property states). Boundary exponents (2e307), 400-digit exponents, 4400-digit literals and 13 unusual characters (unnamed controls, private use, noncharacter, NBSP, look-alikes) are part of the alphabets; the first violation of a batch carries the batch history for its replay.",
    "exhaustive enumeration of all strings / token sequences up to a bound",
    "BoundedEnumerator",
    "DESIGN.md §4 C17",
)
check(
    "C18",
    "exploration",
    "Logarithm families x references (power and root-power, prefixed, non-SI) x level magnitudes x unit choices x magnitude types against the closed-form level model in high-precision Decimal; monotonicity and both round trips.",
    "Levels clipped to float range (reported); 1e-9 when quantity and reference share a unit, 1e-5 per degree through shipped definitions otherwise; plus every order of first use of several logarithmic units with different references on the same quantity units, without state reset in between.",
    "exhaustive enumeration vs closed-form logarithmic model",
    "BoundedEnumerator",
    "DESIGN.md §4 C18",
)
check(
    "C19",
    "model_checking",
    "Explicit-state BFS over histories of anonymous construction, naming and failing definition calls (fault menu in every argument position) for dimensions, prefixes and units, checking binding, uniqueness and atomicity invariants over all registries at every state; plus the shipped declarations under every ordered pair of first-imported modules in fresh interpreters.",
    "Asynchronous exceptions are not in the fault menu. Events include late naming with taken names, a prefix+unit reading looked up before a unit is declared with that symbol, scales (valid / zero point of another dimension / taken symbol), names of derived dimensions, and symbols spelled with compatibility characters.",
    "explicit-state BFS over naming/fault histories; all import orders",
    "HistoryExplorer",
    "DESIGN.md §4 C19",
)
check(
    "C20",
    "model_checking",
    "All interleavings, at line granularity, of 2-3 real threads constructing the same fresh dimension / prefix / unit / logarithmic unit, up to a preemption bound (iterative context bounding); every execution runs to completion and is checked for one object, one registry entry.",
    "Line granularity under GIL semantics; CPython 3.12; preemption bound as in the evidence. Eleven scenarios, including a rejected definition racing a plain evaluation of the same unit and two threads creating two different dimensions; registries are walked whatever their nesting and re-bound if the library replaces them.",
    "stateless schedule exploration with preemption bounding (settrace cooperative scheduler) on real threads",
    "ScheduleExplorer",
    "DESIGN.md §4 C20",
)


def main():
    checks = []
    na = []
    for pid in sorted(C):
        c = C[pid]
        if not os.path.exists(os.path.join(HERE, "mc", "checks", pid.lower() + ".py")):
            na.append({"property_id": pid, "reason": "check not built yet (work in progress; designed in DESIGN.md)"})
            continue
        checks.append(
            {
                "property_id": pid,
                "quick_cmd": f"./check {pid} --tier quick",
                "thorough_cmd": f"./check {pid} --tier thorough",
                "evidence_file": f"/verif/evidence/{pid}.json",
                "replay_cmd_template": f"./check {pid} --replay {{path}}",
                "engine": c["engine"],
                "level_claimed": {"category": c["category"], "text": c["text"], "design_ref": c["design"]},
                "level_note": c["note"],
                "technique": c["technique"],
            }
        )
    man = {
        "version": 1,
        "setup_cmd": "./check --selftest",
        "hooks": {
            "guard": "MEASURED_VERIF",
            "enable": "none needed: no source hooks; state is reached by introspection, declarations by wrapping conversions.equate/translate from outside, scheduling by sys.settrace",
            "baseline_off_cmd": "cd /repo && /venv/bin/python -m pytest -ra -q -p no:cacheprovider --timeout=900 --continue-on-collection-errors",
            "source_commits": [],
            "add_only": True,
        },
        "engines": ENGINES,
        "checks": checks,
        "notes": "Nothing is compiled: every check is a fresh /venv interpreter importing /repo/src/measured. Genuine defects repaired by 'fix:' commits in /repo and open findings are listed in /verif/known_findings.json.",
        "not_applicable": na,
    }
    import jsonschema

    jsonschema.validate(man, json.load(open(os.path.join(HERE, "schemas", "MANIFEST.schema.json"))))
    json.dump(man, open(os.path.join(HERE, "MANIFEST.json"), "w"), indent=1, ensure_ascii=False)
    print(f"MANIFEST.json: {len(checks)} checks, {len(na)} not_applicable")


if __name__ == "__main__":
    sys.exit(main())

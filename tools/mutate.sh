#!/bin/sh
# usage: tools/mutate.sh <patch.diff> <tier> <ID> [<ID> ...]
# Runs the named checks against a scratch copy of /repo with the patch applied (VERIF_SRC),
# never touching /repo; evidence/replays of these runs go to the scratch dir. Prints one line
# per check: <ID> rc=<exit> <first VIOLATION / KNOWN-FINDING lines>
PATCH="$1"; TIER="$2"; shift 2
S=$(mktemp -d /tmp/mutrun.XXXXXX)
mkdir -p "$S/tree"
cp -r /repo/src "$S/tree/src"
if ! patch -s -p1 -d "$S/tree" < "$PATCH"; then echo "PATCH-FAILED $PATCH"; rm -rf "$S"; exit 3; fi
find "$S/tree" -name __pycache__ -prune -exec rm -rf {} + 2>/dev/null
for ID in "$@"; do
  VERIF_SRC="$S/tree/src" VERIF_OUT="$S/out" /verif/check "$ID" --tier "$TIER" > "$S/$ID.log" 2>&1
  RC=$?
  echo "$ID rc=$RC $(grep -c '^VIOLATION' "$S/$ID.log") violation line(s)"
  grep -A2 '^VIOLATION\|^HARNESS' "$S/$ID.log" | head -8 | cut -c1-400
done
rm -rf "$S"

#!/venv/bin/python
"""Confirm and evaluate a seeded change produced by a sub-agent.

usage: tools/seed.py eval <PID> <A|B> [--src /tmp/mut/<PID>/OUT] [--checks C01,C05] [--tier quick]
       tools/seed.py rerun <seed-id> [--checks ...] [--tier quick|thorough]
       tools/seed.py table

eval: 1. the patch applies to a scratch copy of /repo (never /repo itself)
      2. the demonstration exits 0 on /repo/src and non-zero on the patched copy
      3. the repository's baseline suite still passes on the patched copy
      4. runs the named checks (default: the property's own) against the patched copy
      and files everything under /verif/seeded/<PID>-<X>/ (patch.diff, demo.py, meta.json).
"""
import argparse
import json
import os
import shutil
import subprocess
import sys
import tempfile

VERIF = os.path.dirname(os.path.dirname(os.path.abspath(__file__)))
SEEDED = os.path.join(VERIF, "seeded")


def sh(cmd, **kw):
    return subprocess.run(cmd, capture_output=True, text=True, **kw)


def scratch_with_patch(patch):
    s = tempfile.mkdtemp(prefix="seedrun.", dir="/tmp")
    tree = os.path.join(s, "tree")
    shutil.copytree("/repo", tree, ignore=shutil.ignore_patterns(".git", ".hypothesis", "__pycache__", ".coverage*", "docs", ".benchmarks"))
    p = sh(["patch", "-s", "-p1", "-d", tree, "-i", patch])
    if p.returncode != 0:
        shutil.rmtree(s, ignore_errors=True)
        raise SystemExit(f"patch does not apply: {p.stdout} {p.stderr}")
    return s, tree


def run_demo(demo, src):
    env = dict(os.environ, PYTHONPATH=src, PYTHONDONTWRITEBYTECODE="1")
    p = sh(["/venv/bin/python", "-B", demo], env=env, cwd="/tmp", timeout=600)
    return p.returncode, (p.stdout + p.stderr)[-600:]


def run_checks(tree, checks, tier, s):
    out = {}
    for c in checks:
        env = dict(os.environ, VERIF_SRC=os.path.join(tree, "src"), VERIF_OUT=os.path.join(s, "out"))
        p = sh([os.path.join(VERIF, "check"), c, "--tier", tier], env=env, timeout=7200)
        lines = [l for l in p.stdout.splitlines() if l.startswith("VIOLATION")]
        detail = []
        take = 0
        for l in p.stdout.splitlines():
            if l.startswith("VIOLATION"):
                take = 2
                continue
            if take:
                detail.append(l.strip()[:300])
                take -= 1
        out[c] = {
            "tier": tier,
            "exit": p.returncode,
            "violation_lines": len(lines),
            "first": detail[:4],
            "stderr_tail": p.stderr[-300:] if p.returncode not in (0, 1) else "",
        }
        print(f"  {c} [{tier}] exit={p.returncode} violations={len(lines)} {detail[:2]}", flush=True)
    return out


def cmd_eval(a):
    src = a.src or f"/tmp/mut/{a.pid}/OUT"
    x = a.x
    patch = os.path.join(src, f"{x}.diff")
    demo = os.path.join(src, f"{x}_demo.py")
    meta_in = os.path.join(src, f"{x}_meta.json")
    for f in (patch, demo):
        if not os.path.exists(f):
            raise SystemExit(f"missing {f}")
    meta = json.load(open(meta_in)) if os.path.exists(meta_in) else {}
    sid = f"{a.pid}-{x}"
    s, tree = scratch_with_patch(patch)
    try:
        rc0, out0 = run_demo(demo, "/repo/src")
        rc1, out1 = run_demo(demo, os.path.join(tree, "src"))
        print(f"{sid}: demo on /repo exit={rc0}; on patched copy exit={rc1}")
        b = sh([os.path.join(VERIF, "tools", "baseline.py"), tree], timeout=3600)
        tests_ok = b.returncode == 0
        print(f"{sid}: baseline on patched copy: {b.stdout.strip().splitlines()[-1] if b.stdout.strip() else b.stderr[-200:]}")
        confirmed = rc0 == 0 and rc1 != 0 and tests_ok
        checks = a.checks.split(",") if a.checks else [a.pid]
        results = run_checks(tree, checks, a.tier, s) if confirmed or a.force else {}
        if confirmed or a.force:
            d = os.path.join(SEEDED, sid)
            os.makedirs(d, exist_ok=True)
            shutil.copy(patch, os.path.join(d, "patch.diff"))
            shutil.copy(demo, os.path.join(d, "demo.py"))
            m = {
                "id": sid,
                "breaks_property": a.pid,
                "summary": meta.get("summary"),
                "needs_to_manifest": meta.get("needs"),
                "files": meta.get("files"),
                "origin": "independent sub-agent given only the property text and a scratch worktree",
                "confirmed": {
                    "patch_applies_to_repo_head": True,
                    "demo_exit_on_unchanged": rc0,
                    "demo_exit_on_patched": rc1,
                    "demo_output_on_patched": out1[-300:],
                    "baseline_suite_passes_on_patched": tests_ok,
                    "how": "tools/seed.py eval: scratch copy of /repo under /tmp, patch -p1, demo with PYTHONPATH, tools/baseline.py <copy>",
                },
                "checks": results,
            }
            json.dump(m, open(os.path.join(d, "meta.json"), "w"), indent=1, ensure_ascii=False)
        else:
            print(f"{sid}: NOT CONFIRMED (demo/unchanged={rc0}, demo/patched={rc1}, tests_ok={tests_ok}); not filed")
            print(out0[-300:], out1[-300:], b.stdout[-500:])
    finally:
        shutil.rmtree(s, ignore_errors=True)


def cmd_rerun(a):
    d = os.path.join(SEEDED, a.sid)
    m = json.load(open(os.path.join(d, "meta.json")))
    s, tree = scratch_with_patch(os.path.join(d, "patch.diff"))
    try:
        checks = a.checks.split(",") if a.checks else [m["breaks_property"]]
        res = run_checks(tree, checks, a.tier, s)
        for c, r in res.items():
            key = c if a.tier == "quick" else f"{c}:{a.tier}"
            m.setdefault("checks", {})[key] = r
        json.dump(m, open(os.path.join(d, "meta.json"), "w"), indent=1, ensure_ascii=False)
    finally:
        shutil.rmtree(s, ignore_errors=True)


FAMILY = {
    "conv": ["C04", "C05", "C06", "C07", "C08", "C09", "C10", "C12", "C18"],
    "algebra": ["C01", "C02", "C03", "C11", "C13", "C15", "C19", "C20"],
    "text": ["C13", "C15", "C16", "C17"],
    "measure": ["C12", "C14", "C18"],
}
MEMBER = {
    "C01": ["algebra"], "C02": ["algebra"], "C03": ["algebra", "measure"], "C04": ["conv"], "C05": ["conv"], "C06": ["conv"],
    "C07": ["conv"], "C08": ["conv"], "C09": ["conv"], "C10": ["conv"], "C11": ["algebra", "conv"], "C12": ["conv", "measure"],
    "C13": ["text", "algebra"], "C14": ["measure"], "C15": ["text", "algebra"], "C16": ["text"], "C17": ["text"],
    "C18": ["measure", "conv"], "C19": ["algebra", "text"], "C20": ["algebra"],
}


def cmd_matrix(a):
    """Run the related checks (same family) of other properties against a seed: which checks
    catch which changes."""
    for sid in ([a.sid] if a.sid != "all" else sorted(os.listdir(SEEDED))):
        d = os.path.join(SEEDED, sid)
        mp = os.path.join(d, "meta.json")
        if not os.path.exists(mp):
            continue
        m = json.load(open(mp))
        pid = m["breaks_property"]
        related = []
        for fam in MEMBER[pid]:
            for c in FAMILY[fam]:
                if c != pid and c not in related:
                    related.append(c)
        todo = [c for c in related if c not in m.get("matrix", {})]
        if not todo:
            continue
        s, tree = scratch_with_patch(os.path.join(d, "patch.diff"))
        try:
            print(sid, flush=True)
            res = run_checks(tree, todo, "quick", s)
            m.setdefault("matrix", {}).update({c: {"exit": r["exit"], "first": r["first"][:1]} for c, r in res.items()})
            json.dump(m, open(mp, "w"), indent=1, ensure_ascii=False)
        finally:
            shutil.rmtree(s, ignore_errors=True)


def cmd_table(a):
    rows = []
    for sid in sorted(os.listdir(SEEDED)):
        mp = os.path.join(SEEDED, sid, "meta.json")
        if not os.path.exists(mp):
            continue
        m = json.load(open(mp))
        det = [f"{k}({v['tier']})" for k, v in m.get("checks", {}).items() if v.get("exit") == 1]
        miss = [k for k, v in m.get("checks", {}).items() if v.get("exit") == 0]
        err = [k for k, v in m.get("checks", {}).items() if v.get("exit") not in (0, 1)]
        also = [k for k, v in m.get("matrix", {}).items() if v.get("exit") == 1]
        rows.append((sid, m["breaks_property"], (m.get("summary") or "")[:90], ",".join(det) or "-", ",".join(miss) or "-", ",".join(err) or "", "also: " + (",".join(also) or "-")))
    for r in rows:
        print(" | ".join(r))


def main():
    ap = argparse.ArgumentParser()
    sub = ap.add_subparsers(dest="cmd", required=True)
    e = sub.add_parser("eval")
    e.add_argument("pid")
    e.add_argument("x")
    e.add_argument("--src")
    e.add_argument("--checks")
    e.add_argument("--tier", default="quick")
    e.add_argument("--force", action="store_true")
    r = sub.add_parser("rerun")
    r.add_argument("sid")
    r.add_argument("--checks")
    r.add_argument("--tier", default="quick")
    sub.add_parser("table")
    mx = sub.add_parser("matrix")
    mx.add_argument("sid")
    a = ap.parse_args()
    {"eval": cmd_eval, "rerun": cmd_rerun, "table": cmd_table, "matrix": cmd_matrix}[a.cmd](a)


if __name__ == "__main__":
    main()
